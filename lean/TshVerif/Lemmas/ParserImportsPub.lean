import TshVerif.Lemmas.ParserSigProg
namespace Tsh.Parser
open Tsh Tsh.Tr Tsh.LexTables

/-! ### what an importing file gets to see: the public functions and variables of the imported files, nothing else -/

def AllPub (ctx : Ctx) : Prop := (∀ e ∈ ctx.funcs, e.2.pub = true) ∧ (∀ e ∈ ctx.vars, e.2.pub = true)

theorem varFold_pub : ∀ (vs : List Var) (a : Ctx × Bool), (∀ e ∈ a.1.vars, e.2.pub = true) →
    ∀ e ∈ (vs.foldl (fun (a : Ctx × Bool) v =>
      let e := (assocGet a.1.vars v.name).isSome
      (if !e && v.pub then { a.1 with vars := assocSet a.1.vars v.name v } else a.1, a.2 && e)) a).1.vars, e.2.pub = true := by
  intro vs
  induction vs with
  | nil => intro a h; exact h
  | cons v vs ihv =>
    intro a h
    simp only [List.foldl_cons]
    apply ihv
    dsimp only
    split
    · rename_i hc
      intro e he
      rcases assocSet_mem he with h1 | h1
      · exact h e h1
      · subst h1
        simp only [Bool.and_eq_true] at hc
        exact hc.2
    · exact h

theorem regStep_pub (acc : Ctx × List Stmt) (st : Stmt) (h : AllPub acc.1) : AllPub (regStep acc st).1 := by
  obtain ⟨ctx, out⟩ := acc
  cases st with
  | varDef vars vals =>
    simp only [regStep]
    exact ⟨by rw [varFold_funcs]; exact h.1, varFold_pub vars (ctx, true) h.2⟩
  | funcDef name pub rets params body =>
    simp only [regStep]
    split
    · rename_i hc
      refine ⟨?_, h.2⟩
      intro e he
      rcases assocSet_mem he with h1 | h1
      · exact h.1 e h1
      · subst h1
        simp only [Bool.and_eq_true] at hc
        exact hc.2
    · exact h
  | _ => exact h

theorem regFold_pub : ∀ (stmts : List Stmt) (acc : Ctx × List Stmt), AllPub acc.1 → AllPub (stmts.foldl regStep acc).1 := by
  intro stmts
  induction stmts with
  | nil => intro acc h; exact h
  | cons st rest ih => intro acc h; simp only [List.foldl_cons]; exact ih _ (regStep_pub acc st h)

theorem importLoop_vars {depth : Nat} (fs : FileSys) (path : String) (importing : List String) (multiple : Bool) :
    ∀ (fuel : Nat) (ctx : Ctx) (acc : List Stmt) (s0 s' : PSt) (r : Ctx × List Stmt),
      importLoop depth fs path importing fuel multiple ctx acc s0 = .ok r s' → r.1.vars = ctx.vars := by
  intro fuel
  induction fuel with
  | zero => intro ctx acc s0 s' r h; unfold importLoop at h; simp at h
  | succ fuel ih =>
    intro ctx acc s0 s' r h
    unfold importLoop at h
    dsimp only at h
    split at h
    · split at h
      · split at h
        · simp at h
        · split at h
          · split at h
            · simp at h
            · split at h
              · split at h
                · simp only [PRes.ok.injEq] at h
                  obtain ⟨rfl, _⟩ := h
                  rfl
                · split at h
                  · simp only [PRes.ok.injEq] at h
                    obtain ⟨rfl, _⟩ := h
                    rfl
                  · split at h
                    · exact ih { ctx with imports := assocSet ctx.imports _ _ } _ _ _ _ h
                    · simp at h
              · simp at h
              · simp at h
              · simp at h
          · simp at h
          · simp at h
          · simp at h
      · simp at h
      · simp at h
      · simp at h
    · simp at h
    · simp at h
    · simp at h

/-- **An importing file sees only public names**: the context in which a file's own statements are parsed knows, from its
    imports, only functions and variables whose names are public in the file that defines them. -/
theorem evalImports_pub {depth : Nat} (fs : FileSys) (path : String) (importing : List String) (fuel : Nat) (s0 s' : PSt)
    (r : Ctx × List Stmt) (h : evalImports depth fs path importing fuel {} s0 = .ok r s') : AllPub r.1 := by
  have empty : AllPub ({} : Ctx) := ⟨by simp, by simp⟩
  unfold evalImports at h
  dsimp only at h
  split at h
  · split at h
    · simp only [PRes.ok.injEq] at h
      obtain ⟨rfl, _⟩ := h
      exact empty
    · split at h
      · split at h
        · simp at h
        · split at h
          · rename_i c stmts s2 hl
            have hf := importLoop_funcs fs path importing true fuel {} [] _ _ _ hl
            have hv := importLoop_vars fs path importing true fuel {} [] _ _ _ hl
            simp only [PRes.ok.injEq] at h
            obtain ⟨rfl, _⟩ := h
            rw [registerImported_eq]
            exact regFold_pub stmts (c, []) ⟨by rw [hf]; simp, by rw [hv]; simp⟩
          · simp at h
          · simp at h
          · simp at h
      · split at h
        · rename_i c stmts s2 hl
          have hf := importLoop_funcs fs path importing false fuel {} [] _ _ _ hl
          have hv := importLoop_vars fs path importing false fuel {} [] _ _ _ hl
          simp only [PRes.ok.injEq] at h
          obtain ⟨rfl, _⟩ := h
          rw [registerImported_eq]
          exact regFold_pub stmts (c, []) ⟨by rw [hf]; simp, by rw [hv]; simp⟩
        · simp at h
        · simp at h
        · simp at h
  · simp at h
  · simp at h
  · simp at h
