import TshVerif.Lemmas.ParserUseExpr
import TshVerif.Lemmas.ParserSigStmt
namespace Tsh.Parser
open Tsh Tsh.Tr Tsh.LexTables

/-! ### every variable used is a visible one: statements -/

def useSP (Γ : List Var) (st : Stmt) : Prop := PT.useS Γ st = true
def useSsP (Γ : List Var) (ss : List Stmt) : Prop := PT.useSs Γ ss = true

theorem VarsIn.mono {Γ Γ' : List Var} {ctx : Ctx} (h : VarsIn Γ ctx) (hs : ∀ x ∈ Γ, x ∈ Γ') : VarsIn Γ' ctx :=
  fun e he => hs _ (h e he)

theorem declared_sub (Γ : List Var) (st : Stmt) : ∀ x ∈ Γ, x ∈ PT.declared Γ st := by
  intro x hx
  cases st <;> simp [PT.declared, hx]

theorem declaredAll_snoc (Γ : List Var) (acc : List Stmt) (st : Stmt) :
    PT.declaredAll Γ (acc ++ [st]) = PT.declared (PT.declaredAll Γ acc) st := by
  simp [PT.declaredAll, List.foldl_append]

theorem useSs_snoc : ∀ {Γ : List Var} {acc : List Stmt} {st : Stmt}, useSsP Γ acc → useSP (PT.declaredAll Γ acc) st → useSsP Γ (acc ++ [st])
  | Γ, [], st, _, hs => by
      have : PT.useS Γ st = true := by simpa [useSP, PT.declaredAll] using hs
      simp [useSsP, PT.useSs, this]
  | Γ, x :: xs, st, ha, hs => by
      simp only [useSsP, PT.useSs, Bool.and_eq_true] at ha
      simp only [useSsP, List.cons_append, PT.useSs, Bool.and_eq_true]
      exact ⟨ha.1, useSs_snoc (Γ := PT.declared Γ x) ha.2 (by simpa [useSP, PT.declaredAll] using hs)⟩

theorem addVars_varsIn {pfx : String} {g : Bool} : ∀ {vs : List Var} {Γ : List Var} {c c' : Ctx}, VarsIn Γ c →
    c.addVars pfx g vs = some c' → VarsIn (vs ++ Γ) c' := by
  intro vs
  induction vs with
  | nil => intro Γ c c' h he; simp [Ctx.addVars] at he; subst he; simpa using h
  | cons v vs ih =>
    intro Γ c c' h he
    simp only [Ctx.addVars, List.foldlM_cons] at he
    cases hb : c.buildName v.name pfx g false with
    | none => simp [hb] at he
    | some k =>
      simp only [hb, Option.bind_eq_bind, Option.bind_some] at he
      have h1 : VarsIn (v :: Γ) { c with vars := assocSet c.vars k v } := by
        intro e hm
        rcases assocSet_mem hm with h1 | h1
        · exact List.mem_cons_of_mem _ (h e h1)
        · subst h1; simp
      have := ih (Γ := v :: Γ) (c := { c with vars := assocSet c.vars k v }) h1 he
      refine this.mono ?_
      intro x hx
      simp only [List.mem_append, List.mem_cons] at hx ⊢
      rcases hx with hx | hx | hx
      · exact Or.inl (Or.inr hx)
      · exact Or.inl (Or.inl hx)
      · exact Or.inr hx

theorem registerDefs_varsIn {Γ : List Var} {pfx : String} {g : Bool} {st : Stmt} {c c' : Ctx} (h : VarsIn Γ c)
    (he : Parser.registerDefs c pfx g st = some c') : VarsIn (PT.declared Γ st) c' := by
  unfold Parser.registerDefs at he
  split at he
  · exact addVars_varsIn h he
  · exact addVars_varsIn h he
  · rename_i name pub rets params body
    unfold Ctx.addFunc at he
    split at he
    · simp only [Option.some.injEq] at he
      subst he
      exact h.mono (declared_sub Γ _)
    · simp at he
  · simp only [Option.some.injEq] at he
    subst he
    exact h.mono (declared_sub Γ _)

structure UseSIH (fuel : Nat) : Prop where
  blockContent : ∀ Γ terms cb ctx scope, VarsIn Γ ctx → PostOk (evalBlockContent fuel terms cb ctx scope) (useSsP Γ)
  blockLoop : ∀ Γ terms cb ctx acc, VarsIn (PT.declaredAll Γ acc) ctx → useSsP Γ acc → PostOk (evalBlockLoop fuel terms cb ctx acc) (useSsP Γ)
  block : ∀ Γ cb ctx scope, VarsIn Γ ctx → PostOk (evalBlock fuel cb ctx scope) (useSsP Γ)
  functionDefinition : ∀ Γ ctx, VarsIn Γ ctx → PostOk (evalFunctionDefinition fuel ctx) (useSP Γ)
  if_ : ∀ Γ ctx, VarsIn Γ ctx → PostOk (evalIf fuel ctx) (useSP Γ)
  ifRest : ∀ Γ ctx c body elifs els, VarsIn Γ ctx → useP Γ c → useSsP Γ body → PT.useEl Γ elifs = true → useSsP Γ els →
    PostOk (evalIfRest fuel ctx c body elifs els) (useSP Γ)
  switch : ∀ Γ ctx, VarsIn Γ ctx → PostOk (evalSwitch fuel ctx) (useSP Γ)
  cases : ∀ Γ ctx tag first elifs dflt, VarsIn Γ ctx → useP Γ tag → (∀ c b, first = some (c, b) → useP Γ c ∧ useSsP Γ b) →
    PT.useEl Γ elifs = true → (∀ d, dflt = some d → useSsP Γ d) → PostOk (evalCases fuel ctx tag first elifs dflt) (useSP Γ)
  for_ : ∀ Γ ctx, VarsIn Γ ctx → PostOk (evalFor fuel ctx) (useSP Γ)
  statement : ∀ Γ ctx, VarsIn Γ ctx → PostOk (evalStatement fuel ctx) (useSP Γ)

variable {fuel : Nat}

theorem VarsIn.push {Γ : List Var} {ctx : Ctx} (h : VarsIn Γ ctx) (s : Scope) : VarsIn Γ (ctx.push s) := h

theorem uss_blockContent (ih : UseSIH fuel) (Γ : List Var) (terms : List Nat) (cb : List Stmt → Bool → Bool) (ctx : Ctx) (scope : Scope)
    (hc : VarsIn Γ ctx) : PostOk (evalBlockContent (fuel + 1) terms cb ctx scope) (useSsP Γ) := by
  unfold evalBlockContent
  exact ih.blockLoop Γ _ _ _ _ (hc.push scope) rfl

theorem uss_blockLoop (ih : UseSIH fuel) (Γ : List Var) (terms : List Nat) (cb : List Stmt → Bool → Bool) (ctx : Ctx) (acc : List Stmt)
    (hc : VarsIn (PT.declaredAll Γ acc) ctx) (hacc : useSsP Γ acc) : PostOk (evalBlockLoop (fuel + 1) terms cb ctx acc) (useSsP Γ) := by
  unfold evalBlockLoop
  po_bind; intro t
  po_if
  · po_if
    · exact PostOk.pure' hacc
    · exact PostOk.err
  refine PostOk.bind' (P := fun (x : Ctx × List Stmt) => VarsIn (PT.declaredAll Γ x.2) x.1 ∧ useSsP Γ x.2) ?_ ?_
  · po_if
    · exact PostOk.pure' ⟨hc, hacc⟩
    · refine PostOk.bind' (ih.statement _ ctx hc) ?_
      intro st hst
      po_bind; intro s
      refine PostOk.bind' (P := fun c => VarsIn (PT.declaredAll Γ (acc ++ [st])) c) (PostOk.ofOpt (fun c h => by
        rw [declaredAll_snoc]; exact registerDefs_varsIn hc h)) ?_
      intro ctx' hc'
      pm_zeta
      po_if
      · exact PostOk.pure' ⟨hc', useSs_snoc hacc hst⟩
      · exact PostOk.err
  rintro ⟨ctx', acc'⟩ ⟨hc', hacc'⟩
  dsimp only at hc' hacc' ⊢
  po_bind; intro n
  po_if
  · po_bind; intro _
    exact ih.blockLoop Γ _ _ _ _ hc' hacc'
  po_if
  · exact ih.blockLoop Γ _ _ _ _ hc' hacc'
  · exact PostOk.err

theorem uss_block (ih : UseSIH fuel) (Γ : List Var) (cb : List Stmt → Bool → Bool) (ctx : Ctx) (scope : Scope)
    (hc : VarsIn Γ ctx) : PostOk (evalBlock (fuel + 1) cb ctx scope) (useSsP Γ) := by
  unfold evalBlock
  po_bind; intro b
  po_if
  · exact PostOk.err
  po_bind; intro n
  po_if
  · exact PostOk.err
  refine PostOk.bind' (ih.blockContent Γ _ _ _ _ hc) ?_
  intro ss hss
  po_bind; intro e
  po_if
  · exact PostOk.err
  · exact PostOk.pure' hss

theorem useSsP.out {Γ : List Var} {ss : List Stmt} (h : useSsP Γ ss) : PT.useSs Γ ss = true := h
theorem useSP.out {Γ : List Var} {s : Stmt} (h : useSP Γ s) : PT.useS Γ s = true := h

theorem useEl_snoc {Γ : List Var} {a : List (Expr × List Stmt)} {c : Expr} {b : List Stmt} (ha : PT.useEl Γ a = true) (hc : useP Γ c)
    (hb : useSsP Γ b) : PT.useEl Γ (a ++ [(c, b)]) = true := by
  induction a with
  | nil => simp [PT.useEl, hc.out, hb.out]
  | cons x xs ih =>
    obtain ⟨e, body⟩ := x
    simp only [PT.useEl, Bool.and_eq_true] at ha
    simp only [List.cons_append, PT.useEl, Bool.and_eq_true]
    exact ⟨ha.1, ih ha.2⟩

theorem useSs_append_same : ∀ {Γ : List Var} {a b : List Stmt}, useSsP Γ a → useSsP (PT.declaredAll Γ a) b → useSsP Γ (a ++ b)
  | Γ, [], b, _, hb => by simpa [PT.declaredAll] using hb
  | Γ, x :: xs, b, ha, hb => by
      simp only [useSsP, PT.useSs, Bool.and_eq_true] at ha
      simp only [useSsP, List.cons_append, PT.useSs, Bool.and_eq_true]
      exact ⟨ha.1, useSs_append_same (Γ := PT.declared Γ x) ha.2 (by simpa [PT.declaredAll] using hb)⟩

theorem us_varDefinition (E : ∀ Γ fuel, UseIH Γ fuel) (Γ : List Var) (fuel : Nat) (ctx : Ctx) (hc : VarsIn Γ ctx) :
    PostOk (evalVarDefinition fuel ctx) (useSP Γ) := by
  unfold evalVarDefinition
  po_bind; intro short
  pm_jp; intro jp hjp
  have key : ∀ r, PostOk (jp r) (useSP Γ) := by
    intro r; subst hjp; pm_beta
    po_bind; intro names
    po_bind; intro s
    pm_zeta
    split
    · exact PostOk.pan
    pm_zeta
    pm_jp; intro jp2 hjp2
    have key2 : ∀ r, PostOk (jp2 r) (useSP Γ) := by
      intro r; subst hjp2; pm_beta
      po_bind; intro spec
      po_bind; intro next
      pm_zeta
      pm_zeta
      po_bind; intro vars
      po_if
      · refine PostOk.bind' ((E Γ fuel).values ctx true hc) ?_
        intro values hvals
        pm_zeta
        po_if
        · exact PostOk.err
        po_if
        · exact PostOk.err
        po_bind; intro vars'
        cases hm : multiReturnTypes values with
        | some ts =>
          obtain ⟨call, rfl⟩ := multi_single hm
          simp only []
          refine PostOk.pure' ?_
          simp only [usesP, PT.useEs, Bool.and_true] at hvals
          simpa [useSP, PT.useS] using hvals
        | none =>
          simp only []
          exact PostOk.pure' (by simpa [useSP, PT.useS] using hvals.out)
      · refine PostOk.bind' (P := fun values => usesP Γ values) (PostOk.ofOpt (fun values h => ?_)) ?_
        · revert values
          induction vars with
          | nil => intro values h; simp at h; subst h; rfl
          | cons v vs ihv =>
            intro values h
            rw [List.mapM_cons] at h
            cases h1 : defaultVarValue v.vt with
            | none => simp [h1] at h
            | some e =>
              cases h2 : vs.mapM (fun v => defaultVarValue v.vt) with
              | none => simp [h1, h2] at h
              | some rest =>
                simp [h1, h2] at h
                subst h
                have he : PT.useE Γ e = true := by
                  unfold defaultVarValue at h1
                  split at h1
                  · split at h1 <;> simp at h1 <;> subst h1 <;> rfl
                  · simp at h1; subst h1; rfl
                simp [usesP, PT.useEs, he, (ihv rest h2).out]
        intro values hv
        exact PostOk.pure' (by simpa [useSP, PT.useS] using hv.out)
    po_if
    · pm_zeta
      po_if
      · exact PostOk.errBind
      po_if
      · exact PostOk.errBind
      po_if
      · exact PostOk.errBind
      · exact key2 ()
    · po_if
      · exact PostOk.errBind
      · exact key2 ()
  po_if
  · po_bind; intro v
    po_if
    · exact PostOk.errBind
    · exact key ()
  · exact key ()

theorem us_compound (E : ∀ Γ fuel, UseIH Γ fuel) (Γ : List Var) (fuel : Nat) (ctx : Ctx) (hc : VarsIn Γ ctx) :
    PostOk (evalCompoundAssignment fuel ctx) (useSP Γ) := by
  unfold evalCompoundAssignment
  po_bind; intro names
  split
  · po_bind; intro a
    po_if
    · exact PostOk.err
    refine PostOk.bind' ((E Γ fuel).values ctx true hc) ?_
    intro values hvals
    pm_zeta
    po_if
    · exact PostOk.err
    po_bind; intro s
    split
    · po_if
      · exact PostOk.err
      pm_zeta
      po_if
      · exact PostOk.err
      refine PostOk.pure' ?_
      rename_i hfv _ _ _ _
      have hv := findVar_in hc hfv
      simp only [usesP, PT.useEs, Bool.and_eq_true] at hvals
      simp [useSP, PT.useS, PT.useEs, PT.useE, hvals.1, hv]
    · exact PostOk.err
    · exact PostOk.pan
  · exact PostOk.pan
  · exact PostOk.err

theorem mapM_findVars {Γ : List Var} {ctx : Ctx} {pfx : String} (hc : VarsIn Γ ctx)
    {f : Tok × ValueType → Option Var}
    (hf : ∀ t vt v, f (t, vt) = some v → ctx.findVar t.val pfx ctx.global = some v) :
    ∀ {l : List (Tok × ValueType)} {vars : List Var}, l.mapM f = some vars → vars.all Γ.contains = true := by
  intro l
  induction l with
  | nil => intro vars h; simp at h; subst h; rfl
  | cons x xs ih =>
    intro vars h
    rw [List.mapM_cons] at h
    cases h1 : f x with
    | none => simp [h1] at h
    | some v =>
      cases h2 : xs.mapM f with
      | none => simp [h1, h2] at h
      | some vs =>
        simp [h1, h2] at h
        subst h
        obtain ⟨t, vt⟩ := x
        have := findVar_in hc (hf t vt v h1)
        simp only [List.all_cons, List.contains_eq_mem, this, decide_true, Bool.true_and]
        simpa using ih h2

theorem us_varAssignment (E : ∀ Γ fuel, UseIH Γ fuel) (Γ : List Var) (fuel : Nat) (ctx : Ctx) (hc : VarsIn Γ ctx) :
    PostOk (evalVarAssignment fuel ctx) (useSP Γ) := by
  unfold evalVarAssignment
  po_bind; intro names
  po_bind; intro a
  po_if
  · exact PostOk.err
  refine PostOk.bind' ((E Γ fuel).values ctx true hc) ?_
  intro values hvals
  pm_zeta
  po_if
  · exact PostOk.err
  po_bind; intro s
  refine PostOk.bind' (P := fun vars => vars.all Γ.contains = true) (PostOk.ofOpt (fun vars h =>
    mapM_findVars (pfx := s.pfx) hc (by
      intro t vt v hv
      dsimp only at hv
      split at hv
      · split at hv
        · simp only [Option.some.injEq] at hv; subst hv; assumption
        · simp at hv
      · simp at hv) h)) ?_
  intro vars hvars
  cases hm : multiReturnTypes values with
  | some ts =>
    obtain ⟨call, rfl⟩ := multi_single hm
    simp only []
    refine PostOk.pure' ?_
    simp only [usesP, PT.useEs, Bool.and_true] at hvals
    simp [useSP, PT.useS, hvals, hvars]
  | none =>
    simp only []
    exact PostOk.pure' (by simp [useSP, PT.useS, hvals.out, hvars])

theorem us_sliceAssignment (E : ∀ Γ fuel, UseIH Γ fuel) (Γ : List Var) (fuel : Nat) (ctx : Ctx) (hc : VarsIn Γ ctx) :
    PostOk (evalSliceAssignment fuel ctx) (useSP Γ) := by
  unfold evalSliceAssignment
  po_bind; intro nameTok
  po_if
  · exact PostOk.err
  po_bind; intro s
  split
  · exact PostOk.err
  po_if
  · exact PostOk.err
  po_bind; intro o
  po_if
  · exact PostOk.err
  refine PostOk.bind' ((E Γ fuel).expression ctx hc) ?_
  intro index hi
  po_if
  · exact PostOk.err
  po_bind; intro c
  po_if
  · exact PostOk.err
  po_bind; intro a
  po_if
  · exact PostOk.err
  refine PostOk.bind' ((E Γ fuel).expression ctx hc) ?_
  intro value hval
  po_if
  · exact PostOk.err
  rename_i hfv _ _ _ _ _ _
  have hv := findVar_in hc hfv
  exact PostOk.pure' (by simp [useSP, PT.useS, hi.out, hval.out, hv])

theorem us_incDec (Γ : List Var) (ctx : Ctx) (hc : VarsIn Γ ctx) : PostOk (evalIncDec ctx) (useSP Γ) := by
  unfold evalIncDec
  po_bind; intro t
  po_if
  · exact PostOk.err
  po_bind; intro s
  split
  · exact PostOk.err
  rename_i v hfv
  have hv := findVar_in hc hfv
  po_if
  · exact PostOk.err
  po_bind; intro o
  po_if
  · exact PostOk.pure' (by simp [useSP, incDecStmt, PT.useS, PT.useEs, PT.useE, hv])
  po_if
  · exact PostOk.pure' (by simp [useSP, incDecStmt, PT.useS, PT.useEs, PT.useE, hv])
  · exact PostOk.err

variable {fuel : Nat}

theorem uss_functionDefinition (ih : UseSIH fuel) (Γ : List Var) (ctx : Ctx) (hc : VarsIn Γ ctx) :
    PostOk (evalFunctionDefinition (fuel + 1) ctx) (useSP Γ) := by
  unfold evalFunctionDefinition
  po_bind; intro f
  po_if
  · exact PostOk.err
  po_if
  · exact PostOk.err
  po_bind; intro nameTok
  po_if
  · exact PostOk.err
  po_bind; intro s
  pm_zeta
  po_if
  · exact PostOk.err
  po_bind; intro o
  pm_zeta
  po_bind; intro params
  po_bind; intro r
  pm_zeta
  pm_jp; intro jp hjp
  suffices key : ∀ u, PostOk (jp u) (useSP Γ) by
    po_if
    · po_bind; intro _
      exact key _
    · exact key _
  intro u; subst hjp; pm_beta
  po_bind; intro rets
  have hcf : VarsIn (Γ.filter (·.global)) { ctx with vars := ctx.vars.filter fun e => e.2.global } := by
    intro e he
    simp only [List.mem_filter] at he ⊢
    exact ⟨hc e he.1, he.2⟩
  refine PostOk.bind' (P := fun c => VarsIn (params ++ Γ.filter (·.global)) c)
    (PostOk.ofOpt (fun c h => addVars_varsIn hcf h)) ?_
  intro ctx2 hc2
  pm_zeta
  po_bind; intro s2
  po_bind; intro _
  refine PostOk.bind' (ih.block _ _ _ _ hc2) ?_
  intro body hbody
  po_bind; intro s3
  po_bind; intro _
  exact PostOk.pure' (by simpa [useSP, PT.useS] using hbody.out)

theorem uss_if (ih : UseSIH fuel) (E : ∀ Γ fuel, UseIH Γ fuel) (Γ : List Var) (ctx : Ctx) (hc : VarsIn Γ ctx) :
    PostOk (evalIf (fuel + 1) ctx) (useSP Γ) := by
  unfold evalIf
  po_bind; intro t
  po_if
  · exact PostOk.err
  po_bind; intro _
  refine PostOk.bind' ((E Γ fuel).expression ctx hc) ?_
  intro c hcnd
  po_if
  · exact PostOk.err
  refine PostOk.bind' (ih.block Γ _ _ _ hc) ?_
  intro body hbody
  exact ih.ifRest Γ _ _ _ _ _ hc hcnd hbody rfl rfl

theorem uss_ifRest (ih : UseSIH fuel) (E : ∀ Γ fuel, UseIH Γ fuel) (Γ : List Var) (ctx : Ctx) (c : Expr) (body : List Stmt)
    (elifs : List (Expr × List Stmt)) (els : List Stmt) (hc : VarsIn Γ ctx) (hcnd : useP Γ c) (hbody : useSsP Γ body)
    (helifs : PT.useEl Γ elifs = true) (hels : useSsP Γ els) : PostOk (evalIfRest (fuel + 1) ctx c body elifs els) (useSP Γ) := by
  unfold evalIfRest
  po_bind; intro t
  po_if
  · exact PostOk.pure' (by simp [useSP, PT.useS, hcnd.out, hbody.out, helifs, hels.out])
  po_bind; intro _
  po_bind; intro n
  po_if
  · refine PostOk.bind' (ih.block Γ _ _ _ hc) ?_
    intro b hb
    exact ih.ifRest Γ _ _ _ _ _ hc hcnd hbody helifs hb
  · po_bind; intro _
    refine PostOk.bind' ((E Γ fuel).expression ctx hc) ?_
    intro ec hec
    po_if
    · exact PostOk.err
    refine PostOk.bind' (ih.block Γ _ _ _ hc) ?_
    intro b hb
    exact ih.ifRest Γ _ _ _ _ _ hc hcnd hbody (useEl_snoc helifs hec hb) hels

theorem uss_switch (ih : UseSIH fuel) (E : ∀ Γ fuel, UseIH Γ fuel) (Γ : List Var) (ctx : Ctx) (hc : VarsIn Γ ctx) :
    PostOk (evalSwitch (fuel + 1) ctx) (useSP Γ) := by
  unfold evalSwitch
  po_bind; intro sw
  po_if
  · exact PostOk.err
  po_bind; intro t
  refine PostOk.bind' (P := useP Γ) ?_ ?_
  · po_if
    · exact PostOk.pure' rfl
    · exact (E Γ fuel).expression ctx hc
  intro tag htag
  po_if
  · exact PostOk.err
  po_if
  · exact PostOk.err
  po_bind; intro b
  po_if
  · exact PostOk.err
  po_bind; intro n
  po_if
  · exact PostOk.err
  po_bind; intro _
  exact ih.cases Γ _ _ _ _ _ hc htag (by simp) rfl (by simp)

theorem uss_cases (ih : UseSIH fuel) (E : ∀ Γ fuel, UseIH Γ fuel) (Γ : List Var) (ctx : Ctx) (tag : Expr)
    (first : Option (Expr × List Stmt)) (elifs : List (Expr × List Stmt)) (dflt : Option (List Stmt)) (hc : VarsIn Γ ctx)
    (htag : useP Γ tag) (hfirst : ∀ c b, first = some (c, b) → useP Γ c ∧ useSsP Γ b) (helifs : PT.useEl Γ elifs = true)
    (hdflt : ∀ d, dflt = some d → useSsP Γ d) : PostOk (evalCases (fuel + 1) ctx tag first elifs dflt) (useSP Γ) := by
  unfold evalCases
  po_bind; intro t
  po_if
  · po_bind; intro _
    refine PostOk.pure' ?_
    have hd : PT.useSs Γ (dflt.getD []) = true := by
      cases dflt with
      | none => rfl
      | some d => exact hdflt d rfl
    cases first with
    | none => simp [useSP, PT.useS, PT.useE, PT.useSs, helifs, hd]
    | some p =>
      obtain ⟨c, b⟩ := p
      obtain ⟨h1, h2⟩ := hfirst c b rfl
      simp [useSP, PT.useS, h1.out, h2.out, helifs, hd]
  refine PostOk.bind' (P := fun (cmp : Option Expr) => ∀ e, cmp = some e → useP Γ e) ?_ ?_
  · po_if
    · po_bind; intro _
      refine PostOk.bind' ((E Γ fuel).expression ctx hc) ?_
      intro e he
      exact PostOk.pure' (by intro e' h; simp at h; exact h ▸ he)
    po_if
    · po_bind; intro _
      exact PostOk.pure' (by intro e' h; simp at h)
    · exact PostOk.err
  intro cmp hcmp
  po_bind; intro colon
  po_if
  · exact PostOk.err
  refine PostOk.bind' (ih.blockContent Γ _ _ _ _ hc) ?_
  intro stmts hstmts
  split
  · rename_i e
    po_if
    · exact PostOk.err
    have hcnd : useP Γ (.compare "==" tag e) := by simp [useP, PT.useE, htag.out, (hcmp e rfl).out]
    pm_zeta
    split
    · refine ih.cases Γ _ _ _ _ _ hc htag ?_ helifs hdflt
      intro c b h
      simp only [Option.some.injEq, Prod.mk.injEq] at h
      exact h.1 ▸ h.2 ▸ ⟨hcnd, hstmts⟩
    · exact ih.cases Γ _ _ _ _ _ hc htag hfirst (useEl_snoc helifs hcnd hstmts) hdflt
  · split
    · refine ih.cases Γ _ _ _ _ _ hc htag hfirst helifs ?_
      intro d h
      simp only [Option.some.injEq] at h
      exact h ▸ hstmts
    · exact PostOk.err

/-! the loop header: facts that hold for every list of visible variables (the list the loop's own parts are checked
    under depends on the parsed body) -/
def useEA (ctx : Ctx) (e : Expr) : Prop := ∀ Γ, VarsIn Γ ctx → PT.useE Γ e = true
def useOA (ctx : Ctx) (o : Option Stmt) : Prop := ∀ Γ, VarsIn Γ ctx → PT.useO Γ o = true
def useSsA (ctx : Ctx) (ss : List Stmt) : Prop := ∀ Γ, VarsIn Γ ctx → PT.useSs Γ ss = true

theorem all_expression (E : ∀ Γ fuel, UseIH Γ fuel) (fuel : Nat) (ctx : Ctx) : PostOk (evalExpression fuel ctx) (useEA ctx) :=
  fun s a s' h Γ hΓ => (E Γ fuel).expression ctx hΓ s a s' h
theorem all_statement (ih : UseSIH fuel) (ctx : Ctx) : PostOk (evalStatement fuel ctx) (fun st => ∀ Γ, VarsIn Γ ctx → PT.useS Γ st = true) :=
  fun s a s' h Γ hΓ => ih.statement Γ ctx hΓ s a s' h
theorem all_block (ih : UseSIH fuel) (cb : List Stmt → Bool → Bool) (ctx : Ctx) (scope : Scope) :
    PostOk (evalBlock fuel cb ctx scope) (useSsA ctx) :=
  fun s a s' h Γ hΓ => ih.block Γ cb ctx scope hΓ s a s' h

theorem rangeIdx_some {init : Option Stmt} {cond : Expr} {idx : Var} (h : PT.rangeIdx init cond = some idx) :
    init = some (.assign [idx] [.intLit 0]) := by
  unfold PT.rangeIdx at h
  split at h
  · split at h
    · simp only [Option.some.injEq] at h; subst h; rfl
    · simp at h
  · simp at h

theorem forVars_sup (Γ : List Var) (init : Option Stmt) (cond : Expr) (body : List Stmt) :
    ∀ x ∈ PT.declaredO Γ init, x ∈ PT.forVars Γ init cond body := by
  intro x hx
  unfold PT.forVars
  split
  · rename_i idx h
    rw [rangeIdx_some h] at hx
    simp only [PT.declaredO, PT.declared] at hx
    exact List.mem_append_right _ hx
  · exact hx

theorem forVars_range (Γ : List Var) (idx : Var) (op : String) (it : Expr) (body : List Stmt) :
    PT.forVars Γ (some (.assign [idx] [.intLit 0])) (.compare op (.varEval idx) (.len it)) body =
      (match PT.rangeElem idx body with | some v => [v, idx] | none => [idx]) ++ Γ := by
  simp only [PT.forVars, PT.rangeIdx, beq_self_eq_true, ite_true]
  cases PT.rangeElem idx body <;> rfl

theorem uss_for (ih : UseSIH fuel) (E : ∀ Γ fuel, UseIH Γ fuel) (Γ : List Var) (ctx : Ctx) (hc : VarsIn Γ ctx) :
    PostOk (evalFor (fuel + 1) ctx) (useSP Γ) := by
  unfold evalFor
  po_bind; intro f
  po_if
  · exact PostOk.err
  po_bind; intro t0
  po_bind; intro t1
  po_bind; intro t2
  po_bind; intro s
  pm_zeta
  po_if
  · po_bind; intro _
    po_if
    · exact PostOk.err
    po_bind; intro n
    po_bind; intro valueName
    po_bind; intro si
    po_if
    · exact PostOk.err
    po_bind; intro r
    po_if
    · exact PostOk.err
    refine PostOk.bind' (all_expression E fuel ctx) ?_
    intro iterable hit
    pm_zeta
    pm_jp; intro idx hidx
    refine PostOk.bind' (P := fun el => el = Expr.sliceEval iterable (.varEval idx) (Expr.valueType iterable).dt ∨
        el = Expr.substr iterable (.varEval idx) none) ?_ ?_
    · po_if
      · exact PostOk.pure' (Or.inl rfl)
      po_if
      · exact PostOk.pure' (Or.inr rfl)
      · exact PostOk.err
    intro el hel
    refine PostOk.bind' (P := fun c => ∀ Γ', VarsIn Γ' ctx → VarsIn (idx :: Γ') c)
      (PostOk.ofOpt (fun c h Γ' hΓ' => addVars_varsIn hΓ' h)) ?_
    intro ctx1 hc1
    -- the element variable, if any
    refine PostOk.bind' (P := fun (x : Ctx × List Stmt) =>
        (x.2 = [] ∧ ∀ Γ', VarsIn Γ' ctx → VarsIn (idx :: Γ') x.1) ∨
        (∃ v, x.2 = [Stmt.assign [v] [el]] ∧ ∀ Γ', VarsIn Γ' ctx → VarsIn (v :: idx :: Γ') x.1)) ?_ ?_
    · po_if
      · pm_jp; intro v hv
        refine PostOk.bind' (P := fun c => ∀ Γ', VarsIn Γ' ctx → VarsIn (v :: idx :: Γ') c)
          (PostOk.ofOpt (fun c h Γ' hΓ' => addVars_varsIn (hc1 Γ' hΓ') h)) ?_
        intro ctx2 hc2
        exact PostOk.pure' (Or.inr ⟨v, rfl, hc2⟩)
      · exact PostOk.pure' (Or.inl ⟨rfl, hc1⟩)
    rintro ⟨ctx3, pre⟩ hpre
    dsimp only at hpre ⊢
    refine PostOk.bind' (all_block ih _ ctx3 _) ?_
    intro body hbody
    refine PostOk.pure' ?_
    -- the variables the loop's parts are checked under
    have hfv := forVars_range Γ idx "<" iterable (pre ++ body)
    generalize hΓ1 : PT.forVars Γ (some (.assign [idx] [.intLit 0])) (.compare "<" (.varEval idx) (.len iterable)) (pre ++ body) = Γ1 at hfv
    have hsub : ∀ x ∈ Γ, x ∈ Γ1 := by
      intro x hx; rw [hfv]; exact List.mem_append_right _ hx
    have hidx1 : idx ∈ Γ1 := by
      rw [hfv]; split <;> simp
    have hc' : VarsIn Γ1 ctx := hc.mono hsub
    have hit1 := hit Γ1 hc'
    have hel1 : PT.useE Γ1 el = true := by
      rcases hel with rfl | rfl <;> simp [PT.useE, hit1, hidx1]
    have hbody1 : PT.useSs Γ1 (pre ++ body) = true := by
      rcases hpre with ⟨rfl, hv3⟩ | ⟨v, rfl, hv3⟩
      · simp only [List.nil_append]
        refine hbody Γ1 ((hv3 Γ hc).mono ?_)
        intro x hx
        rcases List.mem_cons.mp hx with rfl | hx
        · exact hidx1
        · exact hsub x hx
      · have hv1 : v ∈ Γ1 := by
          rw [hfv]
          rcases hel with rfl | rfl <;> simp [PT.rangeElem]
        have : PT.useSs Γ1 body = true := by
          refine hbody Γ1 ((hv3 Γ hc).mono ?_)
          intro x hx
          rcases List.mem_cons.mp hx with rfl | hx
          · exact hv1
          rcases List.mem_cons.mp hx with rfl | hx
          · exact hidx1
          · exact hsub x hx
        simp [PT.useSs, PT.useS, PT.useEs, PT.declared, hv1, hel1, this]
    simp only [useSP, PT.useS, hΓ1, Bool.and_eq_true, Bool.or_eq_true]
    refine ⟨⟨⟨Or.inl (by simp [PT.rangeIdx]), ?_⟩, ?_⟩, hbody1⟩
    · simp [PT.useE, hidx1, hit1]
    · simp [PT.useO, incDecStmt, PT.useS, PT.useEs, PT.useE, hidx1]
  · po_bind; intro three
    refine PostOk.bind' (P := fun (x : Ctx × Option Stmt × Expr × Option Stmt) =>
        (∀ Γ', VarsIn Γ' ctx → VarsIn (PT.declaredO Γ' x.2.1) x.1) ∧ useOA ctx x.2.1 ∧ useEA x.1 x.2.2.1 ∧ useOA x.1 x.2.2.2) ?_ ?_
    · po_if
      · exact PostOk.pure' ⟨fun _ h => h, fun _ _ => rfl, fun _ _ => rfl, fun _ _ => rfl⟩
      po_if
      · po_bind; intro n
        refine PostOk.bind' (P := fun (x : Ctx × Option Stmt) =>
            (∀ Γ', VarsIn Γ' ctx → VarsIn (PT.declaredO Γ' x.2) x.1) ∧ useOA ctx x.2) ?_ ?_
        · po_if
          · refine PostOk.bind' (all_statement ih ctx) ?_
            intro st hst
            split
            · rename_i vars vals
              refine PostOk.bind' (P := fun c => ∀ Γ', VarsIn Γ' ctx → VarsIn (PT.declaredO Γ' (some (Stmt.varDef vars vals))) c)
                (PostOk.ofOpt (fun c h Γ' hΓ' => addVars_varsIn hΓ' h)) ?_
              intro c hc'
              exact PostOk.pure' ⟨hc', hst⟩
            · rename_i vars call
              refine PostOk.bind' (P := fun c => ∀ Γ', VarsIn Γ' ctx → VarsIn (PT.declaredO Γ' (some (Stmt.varDefCall vars call))) c)
                (PostOk.ofOpt (fun c h Γ' hΓ' => addVars_varsIn hΓ' h)) ?_
              intro c hc'
              exact PostOk.pure' ⟨hc', hst⟩
            · exact PostOk.pure' ⟨fun _ h => h, hst⟩
            · exact PostOk.err
          · exact PostOk.pure' ⟨fun _ h => h, fun _ _ => rfl⟩
        rintro ⟨ctx1, init⟩ ⟨hc1, hinit⟩
        dsimp only at hc1 hinit ⊢
        po_bind; intro sc1
        po_if
        · exact PostOk.err
        po_bind; intro n2
        refine PostOk.bind' (P := useEA ctx1) ?_ ?_
        · po_if
          · exact all_expression E fuel ctx1
          · exact PostOk.pure' (fun _ _ => rfl)
        intro cond hcond
        po_bind; intro sc2
        po_if
        · exact PostOk.err
        po_bind; intro n3
        refine PostOk.bind' (P := useOA ctx1) ?_ ?_
        · po_if
          · refine PostOk.bind' (all_statement ih ctx1) ?_
            intro st hst
            split
            · exact PostOk.pure' hst
            · exact PostOk.err
          · exact PostOk.pure' (fun _ _ => rfl)
        intro incr hincr
        exact PostOk.pure' ⟨hc1, hinit, hcond, hincr⟩
      · refine PostOk.bind' (all_expression E fuel ctx) ?_
        intro c hcnd
        exact PostOk.pure' ⟨fun _ h => h, fun _ _ => rfl, hcnd, fun _ _ => rfl⟩
    rintro ⟨ctx1, init, cond, incr⟩ ⟨hc1, hinit, hcond, hincr⟩
    dsimp only at hc1 hinit hcond hincr ⊢
    po_if
    · exact PostOk.err
    refine PostOk.bind' (all_block ih _ ctx1 _) ?_
    intro body hbody
    refine PostOk.pure' ?_
    have hc1' : VarsIn (PT.forVars Γ init cond body) ctx1 := (hc1 Γ hc).mono (forVars_sup Γ init cond body)
    simp [useSP, PT.useS, hinit Γ hc, hcond _ hc1', hincr _ hc1', hbody _ hc1']

theorem uss_statement (ih : UseSIH fuel) (E : ∀ Γ fuel, UseIH Γ fuel) (Γ : List Var) (ctx : Ctx) (hc : VarsIn Γ ctx) :
    PostOk (evalStatement (fuel + 1) ctx) (useSP Γ) := by
  unfold evalStatement
  po_bind; intro t
  po_if
  · exact (us_varDefinition E Γ fuel ctx hc)
  po_if
  · exact ih.functionDefinition Γ ctx hc
  po_if
  · po_bind; intro _
    po_if
    · exact PostOk.err
    refine PostOk.bind' ((E Γ fuel).values ctx true hc) ?_
    intro vals hv
    exact PostOk.pure' (by simpa [useSP, PT.useS] using hv.out)
  po_if
  · exact ih.if_ Γ ctx hc
  po_if
  · exact ih.switch Γ ctx hc
  po_if
  · exact ih.for_ Γ ctx hc
  po_if
  · po_bind; intro _
    po_if
    · exact PostOk.pure' rfl
    · exact PostOk.err
  po_if
  · po_bind; intro _
    po_if
    · exact PostOk.pure' rfl
    · exact PostOk.err
  po_if
  · refine PostOk.bind' ((E Γ fuel).builtin ctx _ _ _ hc) ?_
    intro args ha
    exact PostOk.pure' (by simpa [useSP, PT.useS] using ha.out)
  po_if
  · refine PostOk.bind' ((E Γ fuel).builtin ctx _ _ _ hc) ?_
    intro args ha
    split
    · po_if
      · exact PostOk.err
      po_if
      · exact PostOk.err
      · refine PostOk.pure' ?_
        obtain ⟨h1, h2⟩ := uses2 ha
        simp [useSP, PT.useS, PT.useE, h1.out, h2.out]
    · po_if
      · exact PostOk.err
      po_if
      · exact PostOk.err
      po_if
      · exact PostOk.err
      · refine PostOk.pure' ?_
        simp only [usesP, PT.useEs, Bool.and_eq_true, Bool.and_true] at ha
        simp [useSP, PT.useS, PT.useE, ha.1, ha.2.1, ha.2.2]
    · exact PostOk.pan
  po_if
  · refine PostOk.bind' ((E Γ fuel).builtin ctx _ _ _ hc) ?_
    intro args ha
    split
    · exact PostOk.pure' (by simpa [useSP, PT.useS] using (uses1 ha).out)
    · exact PostOk.pan
  po_bind; intro short
  po_if
  · exact (us_varDefinition E Γ fuel ctx hc)
  po_bind; intro s
  po_bind; intro t1
  po_if
  · exact (us_incDec Γ ctx hc)
  po_if
  · exact (us_compound E Γ fuel ctx hc)
  po_if
  · exact (us_varAssignment E Γ fuel ctx hc)
  po_if
  · exact (us_sliceAssignment E Γ fuel ctx hc)
  refine PostOk.bind' ((E Γ fuel).expression ctx hc) ?_
  intro e he
  split <;> first
    | exact PostOk.err
    | exact PostOk.pure' (by simpa [useSP, PT.useS] using he.out)

theorem useSIH_all (E : ∀ Γ fuel, UseIH Γ fuel) : ∀ fuel, UseSIH fuel := by
  intro fuel
  induction fuel with
  | zero =>
    constructor <;> intros <;>
      first
        | (unfold evalBlockContent; exact PostOk.div) | (unfold evalBlockLoop; exact PostOk.div) | (unfold evalBlock; exact PostOk.div)
        | (unfold evalFunctionDefinition; exact PostOk.div) | (unfold evalIf; exact PostOk.div) | (unfold evalIfRest; exact PostOk.div)
        | (unfold evalSwitch; exact PostOk.div) | (unfold evalCases; exact PostOk.div) | (unfold evalFor; exact PostOk.div)
        | (unfold evalStatement; exact PostOk.div)
  | succ fuel ih =>
    exact {
      blockContent := fun Γ terms cb ctx scope hc => uss_blockContent ih Γ terms cb ctx scope hc
      blockLoop := fun Γ terms cb ctx acc hc ha => uss_blockLoop ih Γ terms cb ctx acc hc ha
      block := fun Γ cb ctx scope hc => uss_block ih Γ cb ctx scope hc
      functionDefinition := fun Γ ctx hc => uss_functionDefinition ih Γ ctx hc
      if_ := fun Γ ctx hc => uss_if ih E Γ ctx hc
      ifRest := fun Γ ctx c body elifs els hc h1 h2 h3 h4 => uss_ifRest ih E Γ ctx c body elifs els hc h1 h2 h3 h4
      switch := fun Γ ctx hc => uss_switch ih E Γ ctx hc
      cases := fun Γ ctx tag first elifs dflt hc h1 h2 h3 h4 => uss_cases ih E Γ ctx tag first elifs dflt hc h1 h2 h3 h4
      for_ := fun Γ ctx hc => uss_for ih E Γ ctx hc
      statement := fun Γ ctx hc => uss_statement ih E Γ ctx hc }
