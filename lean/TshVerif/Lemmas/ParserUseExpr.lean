import TshVerif.Lemmas.ParserTypedExpr
namespace Tsh.Parser
open Tsh Tsh.Tr Tsh.LexTables

/-! ### every variable used is a visible one: the expression parser -/

/-- every variable the context knows is in `Γ` -/
def VarsIn (Γ : List Var) (ctx : Ctx) : Prop := ∀ e ∈ ctx.vars, e.2 ∈ Γ

def useP (Γ : List Var) (e : Expr) : Prop := PT.useE Γ e = true
def usesP (Γ : List Var) (es : List Expr) : Prop := PT.useEs Γ es = true

theorem usesP.out {Γ : List Var} {es : List Expr} (h : usesP Γ es) : PT.useEs Γ es = true := h
theorem useP.out {Γ : List Var} {e : Expr} (h : useP Γ e) : PT.useE Γ e = true := h

theorem uses_snoc {Γ : List Var} {acc : List Expr} {e : Expr} (ha : usesP Γ acc) (he : useP Γ e) : usesP Γ (acc ++ [e]) := by
  induction acc with
  | nil => simp [usesP, PT.useEs, he.out]
  | cons x xs ih =>
    simp only [usesP, PT.useEs, Bool.and_eq_true] at ha
    simp only [usesP, List.cons_append, PT.useEs, Bool.and_eq_true]
    exact ⟨ha.1, ih ha.2⟩

theorem findVar_in {Γ : List Var} {ctx : Ctx} {name pfx : String} {g : Bool} {v : Var} (hc : VarsIn Γ ctx)
    (h : ctx.findVar name pfx g = some v) : v ∈ Γ := by
  obtain ⟨e, he, rfl⟩ := findVar_mem h
  exact hc e he

structure UseIH (Γ : List Var) (fuel : Nat) : Prop where
  values : ∀ ctx first, VarsIn Γ ctx → PostOk (evalValues fuel ctx first) (usesP Γ)
  builtinArgs : ∀ ctx, VarsIn Γ ctx → PostOk (evalBuiltinArgs fuel ctx) (usesP Γ)
  builtin : ∀ ctx tt mn mx, VarsIn Γ ctx → PostOk (evalBuiltin fuel ctx tt mn mx) (usesP Γ)
  arguments : ∀ ctx ps, VarsIn Γ ctx → PostOk (evalArguments fuel ctx ps) (usesP Γ)
  argLoop : ∀ ctx ps acc, VarsIn Γ ctx → usesP Γ acc → PostOk (evalArgLoop fuel ctx ps acc) (usesP Γ)
  argTail : ∀ ctx ps acc, VarsIn Γ ctx → usesP Γ acc → PostOk (evalArgTail fuel ctx ps acc) (usesP Γ)
  functionCall : ∀ ctx, VarsIn Γ ctx → PostOk (evalFunctionCall fuel ctx) (useP Γ)
  appCall : ∀ ctx, VarsIn Γ ctx → PostOk (evalAppCall fuel ctx) (useP Γ)
  sliceInst : ∀ ctx, VarsIn Γ ctx → PostOk (evalSliceInstantiation fuel ctx) (useP Γ)
  sliceElems : ∀ ctx dt, VarsIn Γ ctx → PostOk (evalSliceElems fuel ctx dt) (usesP Γ)
  subscript : ∀ ctx, VarsIn Γ ctx → PostOk (evalSubscript fuel ctx) (useP Γ)
  single : ∀ ctx, VarsIn Γ ctx → PostOk (evalSingle fuel ctx) (useP Γ)
  unary : ∀ ctx, VarsIn Γ ctx → PostOk (evalUnary fuel ctx) (useP Γ)
  binary : ∀ ctx lv, VarsIn Γ ctx → PostOk (evalBinary fuel ctx lv) (useP Γ)
  binaryLoop : ∀ ctx lv l, VarsIn Γ ctx → useP Γ l → PostOk (evalBinaryLoop fuel ctx lv l) (useP Γ)
  comparison : ∀ ctx, VarsIn Γ ctx → PostOk (evalComparison fuel ctx) (useP Γ)
  logical : ∀ ctx lv, VarsIn Γ ctx → PostOk (evalLogical fuel ctx lv) (useP Γ)
  logicalLoop : ∀ ctx lv l, VarsIn Γ ctx → useP Γ l → PostOk (evalLogicalLoop fuel ctx lv l) (useP Γ)
  expression : ∀ ctx, VarsIn Γ ctx → PostOk (evalExpression fuel ctx) (useP Γ)

set_option hygiene false in
macro "us_ih" : tactic => `(tactic| first
  | exact ih.expression ctx hc | exact ih.values ctx _ hc | exact ih.builtinArgs ctx hc | exact ih.builtin ctx _ _ _ hc
  | exact ih.arguments ctx _ hc | exact ih.functionCall ctx hc | exact ih.appCall ctx hc | exact ih.sliceInst ctx hc
  | exact ih.sliceElems ctx _ hc | exact ih.subscript ctx hc | exact ih.single ctx hc | exact ih.unary ctx hc
  | exact ih.binary ctx _ hc | exact ih.comparison ctx hc | exact ih.logical ctx _ hc)

local macro "us_bind" : tactic => `(tactic| first
  | refine PostOk.bind' (by us_ih) ?_
  | refine PostOk.bindAny ?_)

variable {Γ : List Var} {fuel : Nat}

theorem us_varEvaluation (ctx : Ctx) (hc : VarsIn Γ ctx) : PostOk (evalVarEvaluation ctx) (useP Γ) := by
  unfold evalVarEvaluation
  po_bind; intro t
  po_if
  · exact PostOk.err
  po_bind; intro s
  split
  · rename_i v hv
    exact PostOk.pure' (by simpa [useP, PT.useE] using findVar_in hc hv)
  · exact PostOk.err

theorem us_values (ih : UseIH Γ fuel) (ctx : Ctx) (first : Bool) (hc : VarsIn Γ ctx) :
    PostOk (evalValues (fuel + 1) ctx first) (usesP Γ) := by
  unfold evalValues
  us_bind; intro e he
  us_bind; intro next
  dsimp only
  po_if
  · exact PostOk.err
  po_if
  · exact PostOk.err
  po_if
  · exact PostOk.err
  po_if
  · exact PostOk.pure' (by simp [usesP, PT.useEs, he.out])
  us_bind; intro _
  po_if
  · exact PostOk.err
  us_bind; intro rest hrest
  exact PostOk.pure' (by simp [usesP, PT.useEs, he.out, hrest.out])

theorem us_builtinArgs (ih : UseIH Γ fuel) (ctx : Ctx) (hc : VarsIn Γ ctx) :
    PostOk (evalBuiltinArgs (fuel + 1) ctx) (usesP Γ) := by
  unfold evalBuiltinArgs
  us_bind; intro e he
  po_if
  · exact PostOk.err
  us_bind; intro next
  po_if
  · us_bind; intro _
    us_bind; intro rest hr
    exact PostOk.pure' (by simp [usesP, PT.useEs, he.out, hr.out])
  po_if
  · exact PostOk.pure' (by simp [usesP, PT.useEs, he.out])
  · exact PostOk.err

theorem us_builtin (ih : UseIH Γ fuel) (ctx : Ctx) (tt mn : Nat) (mx : Option Nat) (hc : VarsIn Γ ctx) :
    PostOk (evalBuiltin (fuel + 1) ctx tt mn mx) (usesP Γ) := by
  unfold evalBuiltin
  us_bind; intro kw
  po_if
  · exact PostOk.err
  us_bind; intro o
  po_if
  · exact PostOk.err
  us_bind; intro n
  refine PostOk.bind' (P := usesP Γ) ?_ ?_
  · po_if
    · us_ih
    · exact PostOk.pure' rfl
  intro args ha
  po_if
  · exact PostOk.err
  po_if
  · exact PostOk.err
  us_bind; intro c
  po_if
  · exact PostOk.err
  · exact PostOk.pure' ha

theorem us_arguments (ih : UseIH Γ fuel) (ctx : Ctx) (ps : Option (List Var)) (hc : VarsIn Γ ctx) :
    PostOk (evalArguments (fuel + 1) ctx ps) (usesP Γ) := by
  unfold evalArguments
  us_bind; intro o
  po_if
  · exact PostOk.err
  refine PostOk.bind' (ih.argLoop ctx ps [] hc rfl) ?_
  intro args ha
  dsimp only
  have jp : PostOk (do
      let c ← eat
      if (c.ty != TT_CLOSING_ROUND_BRACKET) = true then err else pure args) (usesP Γ) := by
    po_bind; intro c
    po_if
    · exact PostOk.err
    · exact PostOk.pure' ha
  split
  · po_if
    · exact PostOk.errBind
    · exact jp
  · exact jp

theorem us_argLoop (ih : UseIH Γ fuel) (ctx : Ctx) (ps : Option (List Var)) (acc : List Expr) (hc : VarsIn Γ ctx)
    (hacc : usesP Γ acc) : PostOk (evalArgLoop (fuel + 1) ctx ps acc) (usesP Γ) := by
  unfold evalArgLoop
  us_bind; intro n
  po_if
  · exact PostOk.pure' hacc
  us_bind; intro e he
  dsimp only
  po_if
  · exact PostOk.err
  split
  · po_if
    · exact PostOk.err
    split
    · exact PostOk.pan
    · po_if
      · exact PostOk.err
      · exact ih.argTail ctx _ _ hc (uses_snoc hacc he)
  · exact ih.argTail ctx _ _ hc (uses_snoc hacc he)

theorem us_argTail (ih : UseIH Γ fuel) (ctx : Ctx) (ps : Option (List Var)) (acc : List Expr) (hc : VarsIn Γ ctx)
    (hacc : usesP Γ acc) : PostOk (evalArgTail (fuel + 1) ctx ps acc) (usesP Γ) := by
  unfold evalArgTail
  us_bind; intro n
  po_if
  · exact PostOk.err
  po_if
  · us_bind; intro _
    exact ih.argLoop ctx _ _ hc hacc
  · exact ih.argLoop ctx _ _ hc hacc

theorem us_functionCall (ih : UseIH Γ fuel) (ctx : Ctx) (hc : VarsIn Γ ctx) :
    PostOk (evalFunctionCall (fuel + 1) ctx) (useP Γ) := by
  unfold evalFunctionCall
  us_bind; intro first
  us_bind; intro dot
  us_bind; rintro ⟨alias, nameTok⟩
  po_if
  · exact PostOk.err
  us_bind; intro s
  dsimp only
  split
  · exact PostOk.err
  · rename_i f hf
    refine PostOk.bind' (ih.arguments ctx (some f.params) hc) ?_
    intro args ha
    us_bind; intro _
    exact PostOk.pure' (by simpa [useP, PT.useE] using ha.out)

theorem us_appCall (ih : UseIH Γ fuel) (ctx : Ctx) (hc : VarsIn Γ ctx) :
    PostOk (evalAppCall (fuel + 1) ctx) (useP Γ) := by
  unfold evalAppCall
  us_bind; intro at_
  po_if
  · exact PostOk.err
  us_bind; intro n
  po_if
  · exact PostOk.err
  us_bind; intro args ha
  us_bind; intro p
  po_if
  · us_bind; intro _
    us_bind; intro next hn
    exact PostOk.pure' (by simp [useP, PT.useE, ha.out, hn.out])
  · exact PostOk.pure' (by simp [useP, PT.useE, ha.out])

theorem us_sliceInst (ih : UseIH Γ fuel) (ctx : Ctx) (hc : VarsIn Γ ctx) :
    PostOk (evalSliceInstantiation (fuel + 1) ctx) (useP Γ) := by
  unfold evalSliceInstantiation
  us_bind; intro vt
  po_if
  · exact PostOk.err
  us_bind; intro o
  po_if
  · exact PostOk.err
  us_bind; intro n
  refine PostOk.bind' (P := usesP Γ) ?_ ?_
  · po_if
    · us_ih
    · exact PostOk.pure' rfl
  intro vals hv
  us_bind; intro c
  po_if
  · exact PostOk.err
  · exact PostOk.pure' (by simp [useP, PT.useE, hv.out])

theorem us_sliceElems (ih : UseIH Γ fuel) (ctx : Ctx) (dt : DataType) (hc : VarsIn Γ ctx) :
    PostOk (evalSliceElems (fuel + 1) ctx dt) (usesP Γ) := by
  unfold evalSliceElems
  us_bind; intro e he
  po_if
  · exact PostOk.err
  us_bind; intro n
  po_if
  · us_bind; intro _
    us_bind; intro rest hr
    exact PostOk.pure' (by simp [usesP, PT.useEs, he.out, hr.out])
  po_if
  · exact PostOk.pure' (by simp [usesP, PT.useEs, he.out])
  · exact PostOk.err

theorem us_subscript (ih : UseIH Γ fuel) (ctx : Ctx) (hc : VarsIn Γ ctx) :
    PostOk (evalSubscript (fuel + 1) ctx) (useP Γ) := by
  unfold evalSubscript
  us_bind; intro vt0
  refine PostOk.bind' (P := useP Γ) ?_ ?_
  · po_if
    · exact us_varEvaluation ctx hc
    po_if
    · us_ih
    · exact PostOk.err
  intro value hv
  dsimp only
  po_if
  · exact PostOk.err
  us_bind; intro o
  po_if
  · exact PostOk.err
  us_bind; intro n
  refine PostOk.bind' (P := useP Γ) ?_ ?_
  · po_if
    · us_bind; intro _
      exact PostOk.pure' rfl
    · us_ih
  intro start hs
  po_if
  · exact PostOk.err
  us_bind; intro n2
  us_bind; intro gotRange
  po_if
  · exact PostOk.err
  us_bind; intro n3
  refine PostOk.bind' (P := useP Γ) ?_ ?_
  · po_if
    · us_bind; intro _
      refine PostOk.pure' ?_
      split
      · simp [useP, PT.useE, hv.out]
      · exact hs
    · us_bind; intro e he
      us_bind; intro c
      po_if
      · exact PostOk.err
      · exact PostOk.pure' (by simp [useP, PT.useE, he.out])
  intro stop hstop
  po_if
  · exact PostOk.err
  po_if
  · refine PostOk.pure' ?_
    cases gotRange <;> simp [useP, PT.useE, hv.out, hs.out, hstop.out]
  · exact PostOk.pure' (by simp [useP, PT.useE, hv.out, hs.out])

theorem uses1 {a : Expr} (h : usesP Γ [a]) : useP Γ a := by
  simp [usesP, PT.useEs] at h; exact h
theorem uses2 {a b : Expr} (h : usesP Γ [a, b]) : useP Γ a ∧ useP Γ b := by
  simp [usesP, PT.useEs] at h; exact h

theorem us_single (ih : UseIH Γ fuel) (ctx : Ctx) (hc : VarsIn Γ ctx) :
    PostOk (evalSingle (fuel + 1) ctx) (useP Γ) := by
  unfold evalSingle
  us_bind; intro t
  po_if
  · us_bind; intro _
    exact PostOk.pure' rfl
  po_if
  · us_bind; intro _
    split
    · exact PostOk.pure' rfl
    · exact PostOk.err
  po_if
  · us_bind; intro _
    exact PostOk.pure' rfl
  po_if
  · us_bind; intro _
    exact PostOk.pure' rfl
  po_if
  · us_bind; intro _
    us_bind; intro child hch
    us_bind; intro c
    po_if
    · exact PostOk.err
    · exact PostOk.pure' (by simpa [useP, PT.useE] using hch)
  po_if
  · us_ih
  po_if
  · us_bind; intro args ha
    split
    · exact PostOk.pure' rfl
    · po_if
      · exact PostOk.err
      · refine PostOk.pure' ?_
        simp only [usesP, PT.useEs, Bool.and_eq_true] at ha
        simp [useP, PT.useE, ha.1]
  po_if
  · us_bind; intro args ha
    split
    · po_if
      · exact PostOk.err
      · exact PostOk.pure' (by simpa [useP, PT.useE] using uses1 ha)
    · exact PostOk.pan
  po_if
  · us_bind; intro args ha
    split
    · split
      · po_if
        · exact PostOk.err
        po_if
        · exact PostOk.err
        po_if
        · exact PostOk.err
        · exact PostOk.pure' (by simpa [useP, PT.useE] using uses2 ha)
      · exact PostOk.err
    · exact PostOk.pan
  po_if
  · us_bind; intro args ha
    split
    · po_if
      · exact PostOk.err
      · exact PostOk.pure' (by simpa [useP, PT.useE] using uses1 ha)
    · exact PostOk.pan
  po_if
  · us_bind; intro args ha
    split
    · po_if
      · exact PostOk.err
      · exact PostOk.pure' (by simpa [useP, PT.useE] using uses1 ha)
    · exact PostOk.pan
  po_if
  · us_bind; intro args ha
    split
    · po_if
      · exact PostOk.err
      · exact PostOk.pure' (by simpa [useP, PT.useE] using uses1 ha)
    · exact PostOk.pan
  po_if
  · us_ih
  po_if
  · us_bind; intro n
    po_if
    · us_ih
    po_if
    · us_ih
    · exact us_varEvaluation ctx hc
  · exact PostOk.err

theorem us_unary (ih : UseIH Γ fuel) (ctx : Ctx) (hc : VarsIn Γ ctx) :
    PostOk (evalUnary (fuel + 1) ctx) (useP Γ) := by
  unfold evalUnary
  us_bind; intro t
  dsimp only
  have fin : ∀ e, useP Γ e → PostOk (if (t.ty == TT_UNARY_OPERATOR && t.val == "!") = true then
          if (!(Expr.valueType e).isBool) = true then err else pure (Expr.unary "!" e (Expr.valueType e))
        else pure e) (useP Γ) := by
    intro e he
    po_if
    · po_if
      · exact PostOk.err
      · exact PostOk.pure' (by simpa [useP, PT.useE] using he)
    · exact PostOk.pure' he
  po_if
  · us_bind; intro _
    us_bind; intro e he
    exact fin e he
  · us_bind; intro e he
    exact fin e he

theorem us_binary (ih : UseIH Γ fuel) (ctx : Ctx) (lv : Nat) (hc : VarsIn Γ ctx) :
    PostOk (evalBinary (fuel + 1) ctx lv) (useP Γ) := by
  unfold evalBinary
  refine PostOk.bind' (P := useP Γ) ?_ ?_
  · po_if
    · us_ih
    · us_ih
  intro left hl
  exact ih.binaryLoop ctx _ _ hc hl

theorem us_binaryLoop (ih : UseIH Γ fuel) (ctx : Ctx) (lv : Nat) (l : Expr) (hc : VarsIn Γ ctx) (hl : useP Γ l) :
    PostOk (evalBinaryLoop (fuel + 1) ctx lv l) (useP Γ) := by
  unfold evalBinaryLoop
  dsimp only
  us_bind; intro t
  po_if
  · exact PostOk.pure' hl
  us_bind; intro _
  refine PostOk.bind' (P := useP Γ) ?_ ?_
  · po_if
    · us_ih
    · us_ih
  intro right hr
  po_if
  · exact PostOk.err
  po_if
  · exact PostOk.err
  exact ih.binaryLoop ctx _ _ hc (by simp [useP, PT.useE, hl.out, hr.out])

theorem us_comparison (ih : UseIH Γ fuel) (ctx : Ctx) (hc : VarsIn Γ ctx) :
    PostOk (evalComparison (fuel + 1) ctx) (useP Γ) := by
  unfold evalComparison
  us_bind; intro left hl
  us_bind; intro t
  po_if
  · us_bind; intro _
    us_bind; intro right hr
    dsimp only
    po_if
    · exact PostOk.err
    po_if
    · exact PostOk.err
    exact PostOk.pure' (by simp [useP, PT.useE, hl.out, hr.out])
  · exact PostOk.pure' hl

theorem us_logical (ih : UseIH Γ fuel) (ctx : Ctx) (lv : Nat) (hc : VarsIn Γ ctx) :
    PostOk (evalLogical (fuel + 1) ctx lv) (useP Γ) := by
  unfold evalLogical
  refine PostOk.bind' (P := useP Γ) ?_ ?_
  · po_if
    · us_ih
    · us_ih
  intro left hl
  exact ih.logicalLoop ctx _ _ hc hl

theorem us_logicalLoop (ih : UseIH Γ fuel) (ctx : Ctx) (lv : Nat) (l : Expr) (hc : VarsIn Γ ctx) (hl : useP Γ l) :
    PostOk (evalLogicalLoop (fuel + 1) ctx lv l) (useP Γ) := by
  unfold evalLogicalLoop
  dsimp only
  us_bind; intro t
  po_if
  · exact PostOk.pure' hl
  po_if
  · exact PostOk.err
  us_bind; intro _
  refine PostOk.bind' (P := useP Γ) ?_ ?_
  · po_if
    · us_ih
    · us_ih
  intro right hr
  po_if
  · exact PostOk.err
  exact ih.logicalLoop ctx _ _ hc (by simp [useP, PT.useE, hl.out, hr.out])

theorem us_expression (ih : UseIH Γ fuel) (ctx : Ctx) (hc : VarsIn Γ ctx) :
    PostOk (evalExpression (fuel + 1) ctx) (useP Γ) := by
  unfold evalExpression
  us_ih

theorem useIH_all (Γ : List Var) : ∀ fuel, UseIH Γ fuel := by
  intro fuel
  induction fuel with
  | zero =>
    constructor <;> intros <;>
      first
        | (unfold evalValues; exact PostOk.div) | (unfold evalBuiltinArgs; exact PostOk.div) | (unfold evalBuiltin; exact PostOk.div)
        | (unfold evalArguments; exact PostOk.div) | (unfold evalArgLoop; exact PostOk.div) | (unfold evalArgTail; exact PostOk.div)
        | (unfold evalFunctionCall; exact PostOk.div) | (unfold evalAppCall; exact PostOk.div)
        | (unfold evalSliceInstantiation; exact PostOk.div) | (unfold evalSliceElems; exact PostOk.div)
        | (unfold evalSubscript; exact PostOk.div) | (unfold evalSingle; exact PostOk.div) | (unfold evalUnary; exact PostOk.div)
        | (unfold evalBinary; exact PostOk.div) | (unfold evalBinaryLoop; exact PostOk.div) | (unfold evalComparison; exact PostOk.div)
        | (unfold evalLogical; exact PostOk.div) | (unfold evalLogicalLoop; exact PostOk.div) | (unfold evalExpression; exact PostOk.div)
  | succ fuel ih =>
    exact {
      values := fun ctx first hc => us_values ih ctx first hc
      builtinArgs := fun ctx hc => us_builtinArgs ih ctx hc
      builtin := fun ctx tt mn mx hc => us_builtin ih ctx tt mn mx hc
      arguments := fun ctx ps hc => us_arguments ih ctx ps hc
      argLoop := fun ctx ps acc hc ha => us_argLoop ih ctx ps acc hc ha
      argTail := fun ctx ps acc hc ha => us_argTail ih ctx ps acc hc ha
      functionCall := fun ctx hc => us_functionCall ih ctx hc
      appCall := fun ctx hc => us_appCall ih ctx hc
      sliceInst := fun ctx hc => us_sliceInst ih ctx hc
      sliceElems := fun ctx dt hc => us_sliceElems ih ctx dt hc
      subscript := fun ctx hc => us_subscript ih ctx hc
      single := fun ctx hc => us_single ih ctx hc
      unary := fun ctx hc => us_unary ih ctx hc
      binary := fun ctx lv hc => us_binary ih ctx lv hc
      binaryLoop := fun ctx lv l hc hl => us_binaryLoop ih ctx lv l hc hl
      comparison := fun ctx hc => us_comparison ih ctx hc
      logical := fun ctx lv hc => us_logical ih ctx lv hc
      logicalLoop := fun ctx lv l hc hl => us_logicalLoop ih ctx lv l hc hl
      expression := fun ctx hc => us_expression ih ctx hc }
