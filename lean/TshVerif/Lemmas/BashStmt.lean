/-
  The refinement theorem for statements: for every well-formed AST (`Stmt.wf`), what the transpiler
  walk + bash converter model append to the script is a `Shape .blk` (BashShape.lean), numbered from
  the loop counter before to the loop counter after, non-empty, and the loop / function stacks are
  back where they were.
-/
import TshVerif.Lemmas.BashShape
import TshVerif.Model.Wf
namespace Tsh.Bash
open Tsh Tsh.Tr

theorem bind_ok {α β : Type} {x : BM α} {f : α → BM β} {s : St} {b : β} {s'' : St}
    (h : (x >>= f) s = .ok (b, s'')) : ∃ a s', x s = .ok (a, s') ∧ f a s' = .ok (b, s'') := by
  simp only [bind] at h
  cases hx : x s with
  | ok p => obtain ⟨a, s'⟩ := p; simp [hx] at h; exact ⟨a, s', rfl, h⟩
  | error m => simp [hx] at h
  | panic m => simp [hx] at h

theorem pure_ok {α : Type} {a b : α} {s s' : St} (h : (pure a : BM α) s = .ok (b, s')) : b = a ∧ s' = s := by
  simp [pure] at h; exact ⟨h.1.symm, h.2.symm⟩

theorem addLine_ok {l : Line} {s s' : St} {a : Unit} (h : addLine l s = .ok (a, s')) :
    s' = { s with code := l :: s.code } := by
  simp [addLine, Tr.modify] at h; exact h.symm

/-! ### growth of the code -/

def Grows {α : Type} (m : BM α) : Prop := ∀ s a s', m s = .ok (a, s') → s.code.length < s'.code.length
def Mono {α : Type} (m : BM α) : Prop := ∀ s a s', m s = .ok (a, s') → s.code.length ≤ s'.code.length

theorem Frame.len {s s' : St} (h : Frame s s') : s.code.length ≤ s'.code.length := by
  obtain ⟨n, hc, _⟩ := h.code; simp [hc]

theorem Simple.mono {α : Type} {m : BM α} (h : Simple m) : Mono m :=
  fun s a s' hr => (h.frame s a s' hr).len

theorem Grows.mono {α : Type} {m : BM α} (h : Grows m) : Mono m :=
  fun s a s' hr => Nat.le_of_lt (h s a s' hr)

theorem grows_bind_l {α β : Type} {x : BM α} {f : α → BM β} (hx : Grows x) (hf : ∀ a, Mono (f a)) : Grows (x >>= f) := by
  intro s b s'' h
  obtain ⟨a, s', h1, h2⟩ := bind_ok h
  exact Nat.lt_of_lt_of_le (hx _ _ _ h1) (hf a _ _ _ h2)

theorem grows_bind_r {α β : Type} {x : BM α} {f : α → BM β} (hx : Mono x) (hf : ∀ a, Grows (f a)) : Grows (x >>= f) := by
  intro s b s'' h
  obtain ⟨a, s', h1, h2⟩ := bind_ok h
  exact Nat.lt_of_le_of_lt (hx _ _ _ h1) (hf a _ _ _ h2)

theorem grows_addLine (l : Line) : Grows (addLine l) := by
  intro s a s' h; rw [addLine_ok h]; simp

theorem mono_pure {α : Type} (a : α) : Mono (pure a : BM α) := (simple_pure a).mono

theorem grows_varAssignment (n v : String) (g : Bool) : Grows (varAssignment n v g) := by
  unfold varAssignment
  exact grows_bind_r simple_get.mono (fun _ => grows_addLine _)

/-! ### simple statement-level operations -/

theorem simple_storeRets : ∀ (vs : List String) (i : Nat), Simple (storeRets vs i) := by
  intro vs
  induction vs with
  | nil => intro i; unfold storeRets; exact simple_pure _
  | cons v rest ih => intro i; unfold storeRets; exact simple_bind _ _ (simple_varAssignment _ _ _) (fun _ => ih _)

theorem simple_localParams : ∀ (ps : List String) (i : Nat), Simple (localParams ps i) := by
  intro ps
  induction ps with
  | nil => intro i; unfold localParams; exact simple_pure _
  | cons p rest ih =>
    intro i; unfold localParams
    exact simple_bind _ _ simple_get (fun _ => simple_bind _ _ (simple_addLine _ rfl) (fun _ => ih _))

theorem simple_sliceAssignment (n i v d : String) (g : Bool) : Simple (conv.sliceAssignment n i v d g) := by
  show Simple (do Tr.modify (fun s => { s with sahReq := true }); let s ← Tr.get; addLine (.sah (varEvalString s n g) i v d) : BM Unit)
  refine simple_bind _ _ ?_ (fun _ => simple_bind _ _ simple_get (fun _ => simple_addLine _ rfl))
  apply simple_modify_flags; intro s; simp

theorem grows_sliceAssignment (n i v d : String) (g : Bool) : Grows (conv.sliceAssignment n i v d g) := by
  show Grows (do Tr.modify (fun s => { s with sahReq := true }); let s ← Tr.get; addLine (.sah (varEvalString s n g) i v d) : BM Unit)
  refine grows_bind_r (Simple.mono ?_) (fun _ => grows_bind_r simple_get.mono (fun _ => grows_addLine _))
  apply simple_modify_flags; intro s; simp

theorem simple_ret (vs : List String) : Simple (conv.ret vs) := by
  show Simple (do storeRets vs 0; addLine .ret : BM Unit)
  exact simple_bind _ _ (simple_storeRets _ _) (fun _ => simple_addLine _ rfl)

theorem simple_print (vs : List String) : Simple (conv.print vs) := simple_addLine _ rfl
theorem simple_brk : Simple conv.brk := simple_addLine _ rfl
theorem simple_cont : Simple conv.cont := simple_addLine _ rfl
theorem simple_nop : Simple conv.nop := simple_addLine _ rfl
theorem simple_panicOp (v : String) : Simple (conv.panic v) := by
  show Simple (do addLine (.echo v); addLine .exit1 : BM Unit)
  exact simple_bind _ _ (simple_addLine _ rfl) (fun _ => simple_addLine _ rfl)
theorem simple_writeFile (p c a : String) : Simple (conv.writeFile p c a) := simple_addLine _ rfl

theorem evalConds_simple : ∀ (elifs : List (Expr × List Stmt)), Simple (evalConds conv elifs)
  | [] => by unfold evalConds; exact simple_pure _
  | (c, _) :: rest => by
    unfold evalConds
    exact simple_bind _ _ (evalExpr_simple c true) (fun _ => simple_bind _ _ (evalConds_simple rest) (fun _ => simple_pure _))

theorem simple_defaultValue (vt : ValueType) : Simple (defaultValue conv vt) :=
  defaultValue_closed simpleClosed conv bash_exprOps vt

theorem simple_evalAppend (a : Option Expr) : Simple (evalAppend conv a) :=
  evalAppend_closed simpleClosed conv bash_exprOps a

theorem simple_storeValues (vars : List Var) (vals : List String) : Simple (storeValues conv vars vals) :=
  storeValues_closed simpleClosed conv bash_exprOps vars vals

theorem simple_assignedValues (count : Nat) (vals : List Expr) (n i : Nat) : Simple (assignedValues conv count vals n i) :=
  assignedValues_closed simpleClosed conv bash_exprOps (fun m => simple_panic m) count vals n i

/-! ### statements that always emit a line -/

theorem assignedValues_ne {count : Nat} {vals : List Expr} {n i : Nat} {s s' : St} {values : List String}
    (h : assignedValues conv count vals (n + 1) i s = .ok (values, s')) : values ≠ [] := by
  cases vals with
  | nil => simp [assignedValues, Tr.panic] at h
  | cons e rest =>
    unfold assignedValues at h
    obtain ⟨_, _, _, h⟩ := bind_ok h
    obtain ⟨_, _, _, h⟩ := bind_ok h
    obtain ⟨_, _, _, h⟩ := bind_ok h
    have := (pure_ok h).1
    simp [this]

theorem storeValues_grows {vars : List Var} {values : List String} (hv : vars ≠ []) (hl : values ≠ []) :
    Grows (storeValues conv vars values) := by
  cases vars with
  | nil => exact absurd rfl hv
  | cons x xs =>
    cases values with
    | nil => exact absurd rfl hl
    | cons v vs =>
      unfold storeValues
      exact grows_bind_l (grows_varAssignment _ _ _) (fun _ => (simple_storeValues _ _).mono)

theorem assignValues_grows (vars : List Var) (vals : List Expr) (hv : vars ≠ []) : Grows (assignValues conv vars vals) := by
  intro s a s' h
  unfold assignValues at h
  obtain ⟨values, s1, h1, h2⟩ := bind_ok h
  have hne : values ≠ [] := by
    cases vars with
    | nil => exact absurd rfl hv
    | cons x xs => exact assignedValues_ne (n := xs.length) h1
  exact Nat.lt_of_le_of_lt ((simple_assignedValues _ _ _ _).mono _ _ _ h1) (storeValues_grows hv hne _ _ _ h2)

theorem assignCallValues_grows (vars : List Var) (call : Expr) (hv : vars ≠ []) : Grows (assignCallValues conv vars call) := by
  intro s a s' h
  unfold assignCallValues at h
  obtain ⟨values, s1, h1, h2⟩ := bind_ok h
  split at h2
  · simp [Tr.fail] at h2
  · rename_i hlen
    have hne : values ≠ [] := by
      intro he; subst he
      cases vars with
      | nil => exact hv rfl
      | cons x xs => simp at hlen
    exact Nat.lt_of_le_of_lt ((evalExpr_simple call true).mono _ _ _ h1) (storeValues_grows hv hne _ _ _ h2)

theorem grows_funcCall (n : String) (a : List String) (r : List ValueType) (u : Bool) : Grows (funcCall n a r u) := by
  unfold funcCall
  refine grows_bind_l (grows_addLine _) (fun _ => ?_)
  refine Simple.mono (simple_bind _ _ ?_ (fun _ => simple_pure _))
  split
  · exact simple_copyRets _ _
  · exact simple_pure _

theorem grows_appCall_unused (cs : List (String × List String)) : Grows (appCall cs false) := by
  unfold appCall appCallWith
  simp only [Bool.false_eq_true, if_false]
  exact grows_bind_l (grows_addLine _) (fun _ => mono_pure _)

theorem grows_copyOp (d s : String) (g : Bool) : Grows (copyOp d s g) := by
  unfold copyOp
  refine grows_bind_r simple_get.mono (fun _ => grows_bind_l (grows_addLine _) (fun _ => ?_))
  refine Simple.mono (simple_bind _ _ ?_ (fun _ => simple_bind _ _ simple_nextHelperVar (fun _ =>
      simple_bind _ _ (simple_varAssignSliceLen _ _ _) (fun _ => simple_bind _ _ simple_get (fun _ => simple_pure _)))))
  apply simple_modify_flags; intro s; simp

theorem grows_inputOp (p : String) : Grows (inputOp p) := by
  unfold inputOp
  exact grows_bind_r simple_nextHelperVar.mono (fun _ => grows_bind_r simple_get.mono (fun _ =>
    grows_bind_l (grows_addLine _) (fun _ => (simple_varEvaluation _ _).mono)))

theorem grows_readFile (p : String) : Grows (readFile p) := by
  unfold readFile
  exact grows_bind_r simple_nextHelperVar.mono (fun _ =>
    grows_bind_l (grows_varAssignment _ _ _) (fun _ => (simple_varEvaluation _ _).mono))

/-- an expression statement that is a call emits at least one line -/
theorem exprStmt_grows (e : Expr) (hc : e.isCallLike = true) (hw : ∀ p d a, e ≠ .write p d a) :
    Grows (evalExpr conv e false) := by
  match e with
  | .call name rets args =>
    unfold evalExpr
    refine grows_bind_r (evalArgs_simple args).mono (fun _ => grows_bind_l (grows_funcCall _ _ _ _) (fun vs => ?_))
    split
    · exact (simple_fail _).mono
    · exact mono_pure _
  | .app name args next =>
    unfold evalExpr
    exact grows_bind_r (Simple.mono (evalAppChain_closed simpleClosed conv bash_exprOps _)) (fun _ => grows_appCall_unused _)
  | .copy dst src =>
    unfold evalExpr
    exact grows_bind_r (evalExpr_simple src true).mono (fun _ => grows_bind_l (grows_copyOp _ _ _) (fun _ => mono_pure _))
  | .input none =>
    unfold evalExpr
    exact grows_bind_l (grows_inputOp _) (fun _ => mono_pure _)
  | .input (some x) =>
    unfold evalExpr
    exact grows_bind_r (evalExpr_simple x false).mono (fun _ => grows_bind_l (grows_inputOp _) (fun _ => mono_pure _))
  | .read path =>
    unfold evalExpr
    split
    · intro s a s' h; simp [Tr.fail] at h
    · exact grows_bind_r (evalExpr_simple path true).mono (fun _ => grows_bind_l (grows_readFile _) (fun _ => mono_pure _))
  | .write p d a => exact absurd rfl (hw p d a)
  | .boolLit _ | .intLit _ | .strLit _ | .varEval _ | .unary _ _ _ | .binary _ _ _ | .compare _ _ _
  | .logical _ _ _ | .group _ | .sliceNew _ _ | .sliceEval _ _ _ | .substr _ _ _ | .len _
  | .itoa _ | .exists_ _ | .bad _ => simp [Expr.isCallLike] at hc

/-! ### effect of block-level computations -/

/-- effect of a successfully run computation of sort `k`: stacks restored, start code untouched,
    the appended lines (in script order) form a `Shape k` numbered by the loop counter -/
structure Eff (k : K) (s s' : St) : Prop where
  fors : s'.fors = s.fors
  funcs : s'.funcs = s.funcs
  startCode : s'.startCode = s.startCode
  code : ∃ new, s'.code = new.reverse ++ s.code ∧ Shape k s.forCounter s'.forCounter new

theorem Eff.ofFrame {s s' : St} (h : Frame s s') : Eff .blk s s' := by
  obtain ⟨n, hc, hs⟩ := h.code
  refine ⟨h.fors, h.funcs, h.startCode, n.reverse, by simp [hc], ?_⟩
  rw [h.forCounter]
  exact Shape.ofSimples _ (fun l hl => hs l (by simpa using hl))

theorem Eff.trans {a b c : St} (h1 : Eff .blk a b) (h2 : Eff .blk b c) : Eff .blk a c := by
  obtain ⟨n1, hc1, hs1⟩ := h1.code
  obtain ⟨n2, hc2, hs2⟩ := h2.code
  exact ⟨h2.fors.trans h1.fors, h2.funcs.trans h1.funcs, h2.startCode.trans h1.startCode,
    n1 ++ n2, by simp [hc2, hc1], Shape.append hs1 hs2⟩

theorem Eff.refl (s : St) : Eff .blk s s := Eff.ofFrame (Frame.refl s)

theorem ne_of_grows {n : List Line} {a b : List Line} (hc : b = n.reverse ++ a) (hg : a.length < b.length) : n ≠ [] := by
  intro h; subst h; simp at hc; subst hc; omega

theorem Eff.ifChain {s0 s2 s3 s4 s5 s6 s7 : St} {c : String}
    (e12 : Eff .blk s0 s2) (e3 : s3 = { s2 with code := .ifStart "if" c :: s2.code })
    (e4 : Eff .blk s3 s4) (g4 : s3.code.length < s4.code.length)
    (e5 : Eff .elifs s4 s5) (e6 : Eff .els s5 s6) (e7 : s7 = { s6 with code := .fi :: s6.code }) :
    Eff .blk s0 s7 ∧ s0.code.length < s7.code.length := by
  obtain ⟨n12, hc12, hs12⟩ := e12.code
  obtain ⟨n4, hc4, hs4⟩ := e4.code
  obtain ⟨n5, hc5, hs5⟩ := e5.code
  obtain ⟨n6, hc6, hs6⟩ := e6.code
  have hne : n4 ≠ [] := ne_of_grows hc4 g4
  subst e3 e7
  have hcode : (Line.fi :: s6.code : List Line) = (n12 ++ (Line.ifStart "if" c :: (n4 ++ (n5 ++ (n6 ++ Line.fi :: [])))) ).reverse ++ s0.code := by
    simp [hc6, hc5, hc4, hc12]
  refine ⟨⟨?_, ?_, ?_, _, hcode, ?_⟩, ?_⟩
  · simp [e6.fors, e5.fors, e4.fors, e12.fors]
  · simp [e6.funcs, e5.funcs, e4.funcs, e12.funcs]
  · simp [e6.startCode, e5.startCode, e4.startCode, e12.startCode]
  · exact Shape.append hs12 (Shape.ifChain hs4 hne hs5 hs6 Shape.nil)
  · show s0.code.length < (Line.fi :: s6.code).length
    rw [hcode]; simp; omega

theorem Eff.elifsCons {s0 s1 s2 s3 : St} {c : String}
    (e1 : s1 = { s0 with code := .ifStart "elif" c :: s0.code })
    (e2 : Eff .blk s1 s2) (g2 : s1.code.length < s2.code.length) (e3 : Eff .elifs s2 s3) : Eff .elifs s0 s3 := by
  obtain ⟨n2, hc2, hs2⟩ := e2.code
  obtain ⟨n3, hc3, hs3⟩ := e3.code
  have hne : n2 ≠ [] := ne_of_grows hc2 g2
  subst e1
  refine ⟨?_, ?_, ?_, .ifStart "elif" c :: (n2 ++ n3), ?_, Shape.elifsCons hs2 hne hs3⟩
  · simp [e3.fors, e2.fors]
  · simp [e3.funcs, e2.funcs]
  · simp [e3.startCode, e2.startCode]
  · simp [hc3, hc2]

theorem Eff.elsSome {s0 s1 s2 : St}
    (e1 : s1 = { s0 with code := .else_ :: s0.code })
    (e2 : Eff .blk s1 s2) (g2 : s1.code.length < s2.code.length) : Eff .els s0 s2 := by
  obtain ⟨n2, hc2, hs2⟩ := e2.code
  have hne : n2 ≠ [] := ne_of_grows hc2 g2
  subst e1
  refine ⟨?_, ?_, ?_, .else_ :: n2, ?_, Shape.elsSome hs2 hne⟩
  · simp [e2.fors]
  · simp [e2.funcs]
  · simp [e2.startCode]
  · simp [hc2]

theorem Eff.incrSome {s0 s1 s2 s3 : St} {n : Nat}
    (e1 : s1 = { s0 with code := .incrStart n :: s0.code })
    (e2 : Eff .blk s1 s2) (g2 : s1.code.length < s2.code.length)
    (e3 : s3 = { s2 with code := .incrFlagSet n :: .fi :: s2.code }) : Eff (.incr n) s0 s3 := by
  obtain ⟨n2, hc2, hs2⟩ := e2.code
  have hne : n2 ≠ [] := ne_of_grows hc2 g2
  subst e1 e3
  refine ⟨?_, ?_, ?_, .incrStart n :: (n2 ++ [.fi, .incrFlagSet n]), ?_, Shape.incrSome hs2 hne⟩
  · simp [e2.fors]
  · simp [e2.funcs]
  · simp [e2.startCode]
  · simp [hc2]

theorem Eff.loop {s0 s1 s2 s3 s4 s5 s6 s7 : St} {c : String}
    (e1 : Eff .blk s0 s1)
    (e2 : s2 = { s1 with fors := s1.forCounter :: s1.fors, forCounter := s1.forCounter + 1,
                         code := .whileStart :: .forFlagInit s1.forCounter :: s1.code })
    (e3 : Eff (.incr s1.forCounter) s2 s3) (e4 : Eff .blk s3 s4)
    (e5 : s5 = { s4 with code := .forCond c :: s4.code })
    (e6 : Eff .blk s5 s6) (g6 : s5.code.length < s6.code.length)
    (e7 : s7 = { s6 with code := .done :: s6.code, fors := s6.fors.tail }) :
    Eff .blk s0 s7 ∧ s0.code.length < s7.code.length := by
  obtain ⟨n1, hc1, hs1⟩ := e1.code
  obtain ⟨n3, hc3, hs3⟩ := e3.code
  obtain ⟨n4, hc4, hs4⟩ := e4.code
  obtain ⟨n6, hc6, hs6⟩ := e6.code
  have hne : n6 ≠ [] := ne_of_grows hc6 g6
  subst e2 e5 e7
  have hcode : (Line.done :: s6.code : List Line) =
      (n1 ++ (Line.forFlagInit s1.forCounter :: Line.whileStart :: (n3 ++ (n4 ++ Line.forCond c :: (n6 ++ Line.done :: []))))).reverse ++ s0.code := by
    simp [hc6, hc4, hc3, hc1]
  refine ⟨⟨?_, ?_, ?_, _, hcode, ?_⟩, ?_⟩
  · simp [e6.fors, e4.fors, e3.fors, e1.fors]
  · simp [e6.funcs, e4.funcs, e3.funcs, e1.funcs]
  · simp [e6.startCode, e4.startCode, e3.startCode, e1.startCode]
  · exact Shape.append hs1 (Shape.loop hs3 hs4 hs6 hne Shape.nil)
  · show s0.code.length < (Line.done :: s6.code).length
    rw [hcode]; simp; omega

theorem Eff.func {s0 s1a s1 s2 s3 : St} {name : String}
    (e1 : s1a = { s0 with funcs := name :: s0.funcs, funcCounter := s0.funcCounter + 1, code := .funcStart name :: s0.code })
    (f1 : Frame s1a s1) (e2 : Eff .blk s1 s2) (g2 : s1.code.length < s2.code.length)
    (e3 : s3 = { s2 with code := .funcEnd :: s2.code, funcs := s2.funcs.tail }) :
    Eff .blk s0 s3 ∧ s0.code.length < s3.code.length := by
  obtain ⟨ps, hcp, hsp⟩ := f1.code
  obtain ⟨n2, hc2, hs2⟩ := e2.code
  have hne : n2 ≠ [] := ne_of_grows hc2 g2
  subst e1 e3
  have hcode : (Line.funcEnd :: s2.code : List Line) =
      (Line.funcStart name :: (ps.reverse ++ (n2 ++ Line.funcEnd :: []))).reverse ++ s0.code := by
    simp [hc2, hcp]
  have hfc : s1.forCounter = s0.forCounter := f1.forCounter
  refine ⟨⟨?_, ?_, ?_, _, hcode, ?_⟩, ?_⟩
  · simp [e2.fors, f1.fors]
  · simp [e2.funcs, f1.funcs]
  · simp [e2.startCode, f1.startCode]
  · rw [hfc] at hs2
    exact Shape.func (fun l hl => hsp l (by simpa using hl)) hs2 hne Shape.nil
  · show s0.code.length < (Line.funcEnd :: s2.code).length
    rw [hcode]; simp; omega

/-! ### the structured converter operations as state equations -/

theorem forStart_ok {s s' : St} {a : Unit} (h : conv.forStart s = .ok (a, s')) :
    s' = { s with fors := s.forCounter :: s.fors, forCounter := s.forCounter + 1,
                  code := .whileStart :: .forFlagInit s.forCounter :: s.code } := by
  simp [conv, bind, Tr.modify, currentForVar, addLine] at h
  exact h.symm

theorem forIncrementStart_ok {s s' : St} {a : Unit} {n : Nat} {rest : List Nat} (hf : s.fors = n :: rest)
    (h : conv.forIncrementStart s = .ok (a, s')) : s' = { s with code := .incrStart n :: s.code } := by
  simp [conv, bind, currentForVar, addLine, Tr.modify, hf] at h
  subst h; cases s; simp_all

theorem forIncrementEnd_ok {s s' : St} {a : Unit} {n : Nat} {rest : List Nat} (hf : s.fors = n :: rest)
    (h : conv.forIncrementEnd s = .ok (a, s')) : s' = { s with code := .incrFlagSet n :: .fi :: s.code } := by
  simp [conv, bind, currentForVar, addLine, Tr.modify, hf] at h
  subst h; cases s; simp_all

theorem forEnd_ok {s s' : St} {a : Unit} (h : conv.forEnd s = .ok (a, s')) :
    s' = { s with code := .done :: s.code, fors := s.fors.tail } := by
  simp [conv, bind, addLine, Tr.modify] at h
  exact h.symm

theorem funcEnd_ok {s s' : St} {a : Unit} (h : conv.funcEnd s = .ok (a, s')) :
    s' = { s with code := .funcEnd :: s.code, funcs := s.funcs.tail } := by
  simp [conv, bind, addLine, Tr.modify] at h
  exact h.symm

theorem funcStart_ok {s s' : St} {a : Unit} {name : String} {ps : List String} (h : conv.funcStart name ps s = .ok (a, s')) :
    Frame { s with funcs := name :: s.funcs, funcCounter := s.funcCounter + 1, code := .funcStart name :: s.code } s' := by
  have h' : (do Tr.modify (fun s => { s with funcs := name :: s.funcs, funcCounter := s.funcCounter + 1 });
                addLine (.funcStart name); localParams ps 0 : BM Unit) s = .ok (a, s') := h
  obtain ⟨_, s1, h1, h'⟩ := bind_ok h'
  obtain ⟨_, s2, h2, h3⟩ := bind_ok h'
  simp [Tr.modify] at h1
  have := addLine_ok h2
  subst h1 this
  exact (simple_localParams ps 0).frame _ _ _ h3

/-! ### the refinement theorem -/

mutual
theorem evalStmt_eff (st : Stmt) (hw : st.wf = true) :
    ∀ s a s', evalStmt conv st s = .ok (a, s') → Eff .blk s s' ∧ s.code.length < s'.code.length := by
  match st with
  | .varDef vars vals =>
    intro s a s' h; unfold evalStmt at h
    have hv : vars ≠ [] := by intro he; simp [Stmt.wf, he] at hw
    exact ⟨Eff.ofFrame ((assignValues_simple vars vals).frame _ _ _ h), assignValues_grows vars vals hv _ _ _ h⟩
  | .assign vars vals =>
    intro s a s' h; unfold evalStmt at h
    have hv : vars ≠ [] := by intro he; simp [Stmt.wf, he] at hw
    exact ⟨Eff.ofFrame ((assignValues_simple vars vals).frame _ _ _ h), assignValues_grows vars vals hv _ _ _ h⟩
  | .varDefCall vars call =>
    intro s a s' h; unfold evalStmt at h
    have hv : vars ≠ [] := by intro he; simp [Stmt.wf, he] at hw
    exact ⟨Eff.ofFrame ((assignCallValues_simple vars call).frame _ _ _ h), assignCallValues_grows vars call hv _ _ _ h⟩
  | .assignCall vars call =>
    intro s a s' h; unfold evalStmt at h
    have hv : vars ≠ [] := by intro he; simp [Stmt.wf, he] at hw
    exact ⟨Eff.ofFrame ((assignCallValues_simple vars call).frame _ _ _ h), assignCallValues_grows vars call hv _ _ _ h⟩
  | .sliceAssign v index value =>
    intro s a s' h; unfold evalStmt at h
    have hs : Simple (do let i ← evalExpr conv index true; let r ← evalExpr conv value true
                         let d ← defaultValue conv (Expr.valueType value)
                         conv.sliceAssignment v.name (firstValue i) (firstValue r) d v.global : BM Unit) :=
      simple_bind _ _ (evalExpr_simple _ _) (fun _ => simple_bind _ _ (evalExpr_simple _ _) (fun _ =>
        simple_bind _ _ (simple_defaultValue _) (fun _ => simple_sliceAssignment _ _ _ _ _)))
    refine ⟨Eff.ofFrame (hs.frame _ _ _ h), ?_⟩
    obtain ⟨_, s1, h1, h⟩ := bind_ok h
    obtain ⟨_, s2, h2, h⟩ := bind_ok h
    obtain ⟨_, s3, h3, h⟩ := bind_ok h
    have m1 := (evalExpr_simple _ _).mono _ _ _ h1
    have m2 := (evalExpr_simple _ _).mono _ _ _ h2
    have m3 := (simple_defaultValue _).mono _ _ _ h3
    have m4 := grows_sliceAssignment _ _ _ _ _ _ _ _ h
    omega
  | .funcDef name pub rets params body =>
    intro s a s' h; unfold evalStmt at h
    have hwb : wfStmts body = true := by simpa [Stmt.wf] using hw
    obtain ⟨_, s1, h1, h⟩ := bind_ok h
    obtain ⟨_, s2, h2, h3⟩ := bind_ok h
    obtain ⟨e2, g2⟩ := evalBlock_eff body hwb _ _ _ h2
    exact Eff.func rfl (funcStart_ok h1) e2 g2 (funcEnd_ok h3)
  | .ret vals =>
    intro s a s' h; unfold evalStmt at h
    have hs : Simple (do let vs ← evalArgs conv vals; conv.ret vs : BM Unit) :=
      simple_bind _ _ (evalArgs_simple _) (fun _ => simple_ret _)
    refine ⟨Eff.ofFrame (hs.frame _ _ _ h), ?_⟩
    obtain ⟨vs, s1, h1, h⟩ := bind_ok h
    have m1 := (evalArgs_simple _).mono _ _ _ h1
    have h' : (do storeRets vs 0; addLine .ret : BM Unit) s1 = .ok (a, s') := h
    obtain ⟨_, s2, h2, h3⟩ := bind_ok h'
    have m2 := (simple_storeRets _ _).mono _ _ _ h2
    have m3 := grows_addLine _ _ _ _ h3
    omega
  | .ifS cond body elifs els =>
    intro s a s' h
    simp only [Stmt.wf, Bool.and_eq_true] at hw
    obtain ⟨⟨hwb, hwe⟩, hwl⟩ := hw
    unfold evalStmt at h
    obtain ⟨c, s1, h1, h⟩ := bind_ok h
    obtain ⟨ecs, s2, h2, h⟩ := bind_ok h
    obtain ⟨_, s3, h3, h⟩ := bind_ok h
    obtain ⟨_, s4, h4, h⟩ := bind_ok h
    obtain ⟨_, s5, h5, h⟩ := bind_ok h
    obtain ⟨_, s6, h6, h7⟩ := bind_ok h
    have e1 := Eff.ofFrame ((evalExpr_simple cond true).frame _ _ _ h1)
    have e2 := Eff.ofFrame ((evalConds_simple elifs).frame _ _ _ h2)
    have e3 := addLine_ok (l := .ifStart "if" (firstValue c)) h3
    obtain ⟨e4, g4⟩ := evalBlock_eff body hwb _ _ _ h4
    have e5 := evalElifs_eff elifs ecs hwe _ _ _ h5
    have e6 := evalElse_eff els hwl _ _ _ h6
    have e7 := addLine_ok (l := .fi) h7
    exact Eff.ifChain (e1.trans e2) e3 e4 g4 e5 e6 e7
  | .forS init cond incr body =>
    intro s a s' h
    simp only [Stmt.wf, Bool.and_eq_true] at hw
    obtain ⟨⟨hwi, hwn⟩, hwb⟩ := hw
    unfold evalStmt at h
    obtain ⟨_, s1, h1, h⟩ := bind_ok h
    obtain ⟨_, s2, h2, h⟩ := bind_ok h
    obtain ⟨_, s3, h3, h⟩ := bind_ok h
    obtain ⟨c, s4, h4, h⟩ := bind_ok h
    obtain ⟨_, s5, h5, h⟩ := bind_ok h
    obtain ⟨_, s6, h6, h7⟩ := bind_ok h
    have e1 := evalInit_eff init hwi _ _ _ h1
    have e2 := forStart_ok h2
    have e3 := evalIncr_eff incr hwn s2 _ s3 s1.forCounter s1.fors (by rw [e2]) h3
    have e4 := Eff.ofFrame ((evalExpr_simple cond true).frame _ _ _ h4)
    have e5 := addLine_ok (l := .forCond (firstValue c)) h5
    obtain ⟨e6, g6⟩ := evalBlock_eff body hwb _ _ _ h6
    exact Eff.loop e1 e2 e3 e4 e5 e6 g6 (forEnd_ok h7)
  | .brk =>
    intro s a s' h; unfold evalStmt at h
    exact ⟨Eff.ofFrame (simple_brk.frame _ _ _ h), grows_addLine _ _ _ _ h⟩
  | .cont =>
    intro s a s' h; unfold evalStmt at h
    exact ⟨Eff.ofFrame (simple_cont.frame _ _ _ h), grows_addLine _ _ _ _ h⟩
  | .print es =>
    intro s a s' h; unfold evalStmt at h
    have hs : Simple (do let vs ← evalAll conv es; conv.print vs : BM Unit) :=
      simple_bind _ _ (evalAll_simple _) (fun _ => simple_print _)
    refine ⟨Eff.ofFrame (hs.frame _ _ _ h), ?_⟩
    obtain ⟨vs, s1, h1, h2⟩ := bind_ok h
    have m1 := (evalAll_simple _).mono _ _ _ h1
    have m2 := grows_addLine _ _ _ _ h2
    omega
  | .panic e =>
    intro s a s' h; unfold evalStmt at h
    have hs : Simple (do let r ← evalExpr conv e true; conv.panic s!"panic: {firstValue r}" : BM Unit) :=
      simple_bind _ _ (evalExpr_simple _ _) (fun _ => simple_panicOp _)
    refine ⟨Eff.ofFrame (hs.frame _ _ _ h), ?_⟩
    obtain ⟨r, s1, h1, h2⟩ := bind_ok h
    have m1 := (evalExpr_simple _ _).mono _ _ _ h1
    have h' : (do addLine (.echo s!"panic: {firstValue r}"); addLine .exit1 : BM Unit) s1 = .ok (a, s') := h2
    obtain ⟨_, s2, h3, h4⟩ := bind_ok h'
    have m2 := grows_addLine _ _ _ _ h3
    have m3 := grows_addLine _ _ _ _ h4
    omega
  | .expr (.write path data append) =>
    intro s a s' h; unfold evalStmt at h
    split at h
    · simp [Tr.fail] at h
    · obtain ⟨p, s1, h1, h⟩ := bind_ok h
      split at h
      · simp [Tr.fail] at h
      · obtain ⟨d, s2, h2, h⟩ := bind_ok h
        obtain ⟨ap, s3, h3, h4⟩ := bind_ok h
        have f1 := (evalExpr_simple _ _).frame _ _ _ h1
        have f2 := (evalExpr_simple _ _).frame _ _ _ h2
        have f3 := (simple_evalAppend _).frame _ _ _ h3
        have f4 := (simple_writeFile _ _ _).frame _ _ _ h4
        have g4 := grows_addLine _ _ _ _ h4
        refine ⟨Eff.ofFrame (((f1.trans f2).trans f3).trans f4), ?_⟩
        have := f1.len; have := f2.len; have := f3.len
        omega
  | .expr (.call name rets args) =>
    intro s a s' h; unfold evalStmt at h
    obtain ⟨_, s1, h1, h2⟩ := bind_ok h
    obtain ⟨_, rfl⟩ := pure_ok h2
    exact ⟨Eff.ofFrame ((evalExpr_simple _ _).frame _ _ _ h1), exprStmt_grows _ rfl (by intro p d a hh; cases hh) _ _ _ h1⟩
  | .expr (.app name args next) =>
    intro s a s' h; unfold evalStmt at h
    obtain ⟨_, s1, h1, h2⟩ := bind_ok h
    obtain ⟨_, rfl⟩ := pure_ok h2
    exact ⟨Eff.ofFrame ((evalExpr_simple _ _).frame _ _ _ h1), exprStmt_grows _ rfl (by intro p d a hh; cases hh) _ _ _ h1⟩
  | .expr (.copy dst src) =>
    intro s a s' h; unfold evalStmt at h
    obtain ⟨_, s1, h1, h2⟩ := bind_ok h
    obtain ⟨_, rfl⟩ := pure_ok h2
    exact ⟨Eff.ofFrame ((evalExpr_simple _ _).frame _ _ _ h1), exprStmt_grows _ rfl (by intro p d a hh; cases hh) _ _ _ h1⟩
  | .expr (.input pr) =>
    intro s a s' h; unfold evalStmt at h
    obtain ⟨_, s1, h1, h2⟩ := bind_ok h
    obtain ⟨_, rfl⟩ := pure_ok h2
    exact ⟨Eff.ofFrame ((evalExpr_simple _ _).frame _ _ _ h1), exprStmt_grows _ rfl (by intro p d a hh; cases hh) _ _ _ h1⟩
  | .expr (.read path) =>
    intro s a s' h; unfold evalStmt at h
    obtain ⟨_, s1, h1, h2⟩ := bind_ok h
    obtain ⟨_, rfl⟩ := pure_ok h2
    exact ⟨Eff.ofFrame ((evalExpr_simple _ _).frame _ _ _ h1), exprStmt_grows _ rfl (by intro p d a hh; cases hh) _ _ _ h1⟩
  | .expr (.boolLit _) | .expr (.intLit _) | .expr (.strLit _) | .expr (.varEval _) | .expr (.unary _ _ _)
  | .expr (.binary _ _ _) | .expr (.compare _ _ _) | .expr (.logical _ _ _) | .expr (.group _)
  | .expr (.sliceNew _ _) | .expr (.sliceEval _ _ _) | .expr (.substr _ _ _) | .expr (.len _)
  | .expr (.itoa _) | .expr (.exists_ _) | .expr (.bad _) =>
    simp [Stmt.wf, Expr.isCallLike] at hw

theorem evalInit_eff (init : Option Stmt) (hw : wfOpt init = true) :
    ∀ s a s', evalInit conv init s = .ok (a, s') → Eff .blk s s' := by
  match init with
  | some i =>
    intro s a s' h; unfold evalInit at h
    exact (evalStmt_eff i (by simpa [wfOpt] using hw) _ _ _ h).1
  | none =>
    intro s a s' h; unfold evalInit at h
    obtain ⟨_, rfl⟩ := pure_ok h
    exact Eff.refl _

theorem evalIncr_eff (incr : Option Stmt) (hw : wfOpt incr = true) :
    ∀ s a s' n rest, s.fors = n :: rest → evalIncr conv incr s = .ok (a, s') → Eff (.incr n) s s' := by
  match incr with
  | some i =>
    intro s a s' n rest hf h; unfold evalIncr at h
    obtain ⟨_, s1, h1, h⟩ := bind_ok h
    obtain ⟨_, s2, h2, h3⟩ := bind_ok h
    have e1 := forIncrementStart_ok hf h1
    obtain ⟨e2, g2⟩ := evalStmt_eff i (by simpa [wfOpt] using hw) _ _ _ h2
    have hf2 : s2.fors = n :: rest := by rw [e2.fors, e1]; exact hf
    exact Eff.incrSome e1 e2 g2 (forIncrementEnd_ok hf2 h3)
  | none =>
    intro s a s' n rest hf h; unfold evalIncr at h
    obtain ⟨_, rfl⟩ := pure_ok h
    exact ⟨rfl, rfl, rfl, [], by simp, Shape.incrNone⟩

theorem evalElse_eff (els : List Stmt) (hw : wfStmts els = true) :
    ∀ s a s', evalElse conv els s = .ok (a, s') → Eff .els s s' := by
  match els with
  | [] =>
    intro s a s' h; unfold evalElse at h
    obtain ⟨_, rfl⟩ := pure_ok h
    exact ⟨rfl, rfl, rfl, [], by simp, Shape.elsNone⟩
  | st :: rest =>
    intro s a s' h; unfold evalElse at h
    simp only [wfStmts, Bool.and_eq_true] at hw
    obtain ⟨_, s1, h1, h⟩ := bind_ok h
    obtain ⟨_, s2, h2, h⟩ := bind_ok h
    obtain ⟨_, s3, h3, h4⟩ := bind_ok h
    have e1 := addLine_ok (l := .else_) h1
    obtain ⟨e2, g2⟩ := evalStmt_eff st hw.1 _ _ _ h2
    have e3 := evalStmts_eff rest hw.2 _ _ _ h3
    have g3 : s2.code.length ≤ s3.code.length := by
      obtain ⟨n, hc, _⟩ := e3.code; simp [hc]
    obtain ⟨_, rfl⟩ := pure_ok (a := ()) h4
    exact Eff.elsSome e1 (e2.trans e3) (by omega)

theorem evalBlock_eff (body : List Stmt) (hw : wfStmts body = true) :
    ∀ s a s', evalBlock conv body s = .ok (a, s') → Eff .blk s s' ∧ s.code.length < s'.code.length := by
  match body with
  | [] =>
    intro s a s' h; unfold evalBlock at h
    exact ⟨Eff.ofFrame (simple_nop.frame _ _ _ h), grows_addLine _ _ _ _ h⟩
  | st :: rest =>
    intro s a s' h; unfold evalBlock at h
    simp only [wfStmts, Bool.and_eq_true] at hw
    obtain ⟨_, s1, h1, h2⟩ := bind_ok h
    obtain ⟨e1, g1⟩ := evalStmt_eff st hw.1 _ _ _ h1
    have e2 := evalStmts_eff rest hw.2 _ _ _ h2
    have g2 : s1.code.length ≤ s'.code.length := by
      obtain ⟨n, hc, _⟩ := e2.code; simp [hc]
    exact ⟨e1.trans e2, by omega⟩

theorem evalStmts_eff (body : List Stmt) (hw : wfStmts body = true) :
    ∀ s a s', evalStmts conv body s = .ok (a, s') → Eff .blk s s' := by
  match body with
  | [] =>
    intro s a s' h; unfold evalStmts at h
    obtain ⟨_, rfl⟩ := pure_ok h
    exact Eff.refl _
  | st :: rest =>
    intro s a s' h; unfold evalStmts at h
    simp only [wfStmts, Bool.and_eq_true] at hw
    obtain ⟨_, s1, h1, h2⟩ := bind_ok h
    exact (evalStmt_eff st hw.1 _ _ _ h1).1.trans (evalStmts_eff rest hw.2 _ _ _ h2)

theorem evalElifs_eff (elifs : List (Expr × List Stmt)) (conds : List String) (hw : wfElifs elifs = true) :
    ∀ s a s', evalElifs conv elifs conds s = .ok (a, s') → Eff .elifs s s' := by
  match elifs, conds with
  | (_, body) :: rest, c :: cs =>
    intro s a s' h; unfold evalElifs at h
    simp only [wfElifs, Bool.and_eq_true] at hw
    obtain ⟨_, s1, h1, h⟩ := bind_ok h
    obtain ⟨_, s2, h2, h⟩ := bind_ok h
    obtain ⟨_, s3, h3, h4⟩ := bind_ok h
    have e1 := addLine_ok (l := .ifStart "elif" c) h1
    obtain ⟨e2, g2⟩ := evalBlock_eff body hw.1 _ _ _ h2
    obtain ⟨_, rfl⟩ := pure_ok (a := ()) h3
    exact Eff.elifsCons e1 e2 g2 (evalElifs_eff rest cs hw.2 _ _ _ h4)
  | [], _ =>
    intro s a s' h; unfold evalElifs at h
    obtain ⟨_, rfl⟩ := pure_ok h
    exact ⟨rfl, rfl, rfl, [], by simp, Shape.elifsNil⟩
  | _ :: _, [] =>
    intro s a s' h; unfold evalElifs at h
    obtain ⟨_, rfl⟩ := pure_ok h
    exact ⟨rfl, rfl, rfl, [], by simp, Shape.elifsNil⟩
end

end Tsh.Bash
