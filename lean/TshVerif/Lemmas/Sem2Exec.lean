/-
  Execution lemmas for the bash model with functions: sequencing, simple steps of every assignment form,
  operand texts that stay valid across later helper writes and across calls.
-/
import TshVerif.Lemmas.Sem2Base
namespace Tsh.Sem2
open Tsh Tsh.Tr Tsh.Bash Tsh.Sem Tsh.Sem2.Src
open Tsh.Sem.Src (Val Env)

/-! ### lines and blocks -/

theorem flats_append (a b : List Cmd) : flats (a ++ b) = flats a ++ flats b := by
  induction a with
  | nil => simp [flats]
  | cons c cs ih => simp [flats, ih]

theorem flats_simples (ls : List Line) : flats (ls.map Cmd.simple) = ls := by
  induction ls with
  | nil => simp [flats]
  | cons l ls ih => simp [flats, flat, ih]

theorem flats_simples_reverse (ls : List Line) : flats ((ls.map Cmd.simple).reverse) = ls.reverse := by
  rw [← List.map_reverse, flats_simples]

theorem execCmds_append {a b : List Cmd} {c c1 c' : Cfg} {o : Out}
    (h1 : ExecCmds a c .normal c1) (h2 : ExecCmds b c1 o c') : ExecCmds (a ++ b) c o c' := by
  induction a generalizing c with
  | nil => cases h1; exact h2
  | cons x xs ih =>
    cases h1 with
    | cons hx hxs => exact ExecCmds.cons hx (ih hxs)
    | stop hx hne => exact absurd rfl hne

theorem execCmds_stop_append {a : List Cmd} (b : List Cmd) {c c' : Cfg} {o : Out}
    (h1 : ExecCmds a c o c') (hne : o ≠ .normal) : ExecCmds (a ++ b) c o c' := by
  induction a generalizing c with
  | nil => cases h1; exact absurd rfl hne
  | cons x xs ih =>
    cases h1 with
    | cons hx hxs => exact ExecCmds.cons hx (ih hxs)
    | stop hx hne' => exact ExecCmds.stop hx hne'

theorem execCmds_single {x : Cmd} {c c' : Cfg} {o : Out} (h : ExecCmd x c o c') : ExecCmds [x] c o c' := by
  by_cases ho : o = .normal
  · subst ho; exact ExecCmds.cons h ExecCmds.nil
  · exact ExecCmds.stop h ho

/-- a line that is not a call, executed as a command -/
theorem execCmds_step {l : Line} {c c' : Cfg} {o : Out} (hc : isCall l = false) (h : stepSimple l c = some (o, c')) :
    ExecCmds [Cmd.simple l] c o c' := execCmds_single (ExecCmd.simple hc h)

/-! ### operand texts -/

/-- `t` reads as the value of operand `o` now and in every later configuration that agrees with the source and still
    has the helper variables below `n` -/
def HoldsF (ctx : Ctx) (t : String) (o : Opd) (n : Nat) (ρ0 : Store) : Prop :=
  ∀ c' m', AgreeF ctx c' m' → (∀ j, j < n → m'.ρ (ctx.hn j) = ρ0 (ctx.hn j)) →
    ∀ v, resolve c' o = some v → Complete m'.ρ t.toList v.render.toList

def HoldsAllF (ctx : Ctx) : List String → List Opd → Nat → Store → Prop
  | [], [], _, _ => True
  | t :: ts, o :: os, n, ρ => HoldsF ctx t o n ρ ∧ HoldsAllF ctx ts os n ρ
  | _, _, _, _ => False

theorem HoldsF.mono {ctx : Ctx} {t : String} {o : Opd} {n n' : Nat} {ρ ρ' : Store} (h : HoldsF ctx t o n ρ) (hn : n ≤ n')
    (hρ : ∀ j, j < n → ρ' (ctx.hn j) = ρ (ctx.hn j)) : HoldsF ctx t o n' ρ' := by
  intro c' m' ha hk v hv
  exact h c' m' ha (fun j hj => by rw [hk j (by omega), hρ j hj]) v hv

theorem HoldsAllF.mono {ctx : Ctx} : ∀ {ts : List String} {os : List Opd} {n n' : Nat} {ρ ρ' : Store}, HoldsAllF ctx ts os n ρ → n ≤ n' →
    (∀ j, j < n → ρ' (ctx.hn j) = ρ (ctx.hn j)) → HoldsAllF ctx ts os n' ρ'
  | [], [], _, _, _, _, _, _, _ => trivial
  | _ :: _, _ :: _, _, _, _, _, h, hn, hρ => ⟨h.1.mono hn hρ, HoldsAllF.mono h.2 hn hρ⟩
  | [], _ :: _, _, _, _, _, h, _, _ => h.elim
  | _ :: _, [], _, _, _, _, h, _, _ => h.elim

theorem HoldsAllF.length {ctx : Ctx} : ∀ {ts : List String} {os : List Opd} {n : Nat} {ρ : Store}, HoldsAllF ctx ts os n ρ → ts.length = os.length
  | [], [], _, _, _ => rfl
  | _ :: _, _ :: _, _, _, h => by simp [HoldsAllF.length h.2]
  | [], _ :: _, _, _, h => h.elim
  | _ :: _, [], _, _, h => h.elim

theorem holdsF_text (ctx : Ctx) (t : String) (v : Val) (n : Nat) (ρ0 : Store)
    (h : ∀ ρ : Store, Complete ρ t.toList v.render.toList) : HoldsF ctx t (.lit v) n ρ0 := by
  intro c' m' _ _ w hw
  simp only [resolve, Option.some.injEq] at hw
  subst hw
  exact h m'.ρ

theorem holdsF_var (ctx : Ctx) (x : Var) (n : Nat) (ρ0 : Store) :
    HoldsF ctx ("${" ++ ctx.mg x.name x.global ++ "}") (.var x) n ρ0 := by
  intro c' m' ha _ v hv
  simp only [resolve] at hv
  obtain ⟨hg, hr⟩ := ha.read hv
  rw [← hr]
  exact complete_var m'.ρ _ (ctx.mg_valid _ _ hg)

theorem holdsF_helper (ctx : Ctx) (j : Nat) (v : Val) (ρ0 : Store) (h : ρ0 (ctx.hn j) = v.render) :
    HoldsF ctx ("${" ++ ctx.hn j ++ "}") (.lit v) (j + 1) ρ0 := by
  intro c' m' _ hk w hw
  simp only [resolve, Option.some.injEq] at hw
  subst hw
  rw [← h, ← hk j (by omega)]
  exact complete_var m'.ρ _ (ctx.hn_valid j)

theorem holdsF_itoa {ctx : Ctx} {t : String} {o : Opd} {n : Nat} {ρ0 : Store} (h : HoldsF ctx t o n ρ0) : HoldsF ctx t (.itoa o) n ρ0 := by
  intro c' m' ha hk v hv
  simp only [resolve] at hv
  split at hv
  · rename_i k hk'
    simp only [Option.some.injEq] at hv
    subst hv
    exact h c' m' ha hk (.int k) hk'
  · simp at hv

/-! ### single steps -/

theorem HoldsF.expand {ctx : Ctx} {t : String} {o : Opd} {n : Nat} {c : SCfg} {m : Cfg} {v : Val} (h : HoldsF ctx t o n m.ρ)
    (ha : AgreeF ctx c m) (hv : resolve c o = some v) : Sem.expand m.ρ t = some v.render :=
  (h c m ha (fun _ _ => rfl) v hv).toExpand

theorem HoldsF.expandInt {ctx : Ctx} {t : String} {o : Opd} {n : Nat} {c : SCfg} {m : Cfg} {k : Int} (h : HoldsF ctx t o n m.ρ)
    (ha : AgreeF ctx c m) (hv : resolve c o = some (.int k)) : Sem.expandInt m.ρ t = some k := by
  simp only [Sem.expandInt, h.expand ha hv, Option.bind]
  exact asInt_toString k

theorem HoldsF.expandBool {ctx : Ctx} {t : String} {o : Opd} {n : Nat} {c : SCfg} {m : Cfg} {b : Bool} (h : HoldsF ctx t o n m.ρ)
    (ha : AgreeF ctx c m) (hv : resolve c o = some (.bool b)) : Sem.expandInt m.ρ t = some (if b then 1 else 0) := by
  simp only [Sem.expandInt, h.expand ha hv, Option.bind]
  exact asInt_boolStr b

theorem step2_not {tx : String} (m : Cfg) (h : String) {b : Bool} (hx : expandInt m.ρ tx = some (if b then 1 else 0)) :
    stepSimple (.assignTest h (.cmp tx "-eq" "1") "0" "1") m = some (.normal, { m with ρ := m.ρ.set h (boolStr (!b)) }) := by
  simp only [stepSimple, evalTest, hx, expandInt_one, numTest, bit]
  cases b <;> simp [boolStr]

theorem step2_arith {tl tr op : String} (m : Cfg) (h : String) {x y z : Int}
    (hl : expandInt m.ρ tl = some x) (hr : expandInt m.ρ tr = some y) (hz : arith op x y = some z) :
    stepSimple (.assignArith h tl op tr) m = some (.normal, { m with ρ := m.ρ.set h (toString z) }) := by
  simp only [stepSimple, hl, hr, hz]

theorem step2_assign {t v : String} (m : Cfg) (x : String) (h : expand m.ρ t = some v) :
    stepSimple (.assign x t) m = some (.normal, { m with ρ := m.ρ.set x v }) := by
  simp only [stepSimple, h]

theorem step2_cmp_num {tl tr os : String} (m : Cfg) (h : String) {x y : Int} {v : Bool}
    (hl : expandInt m.ρ tl = some x) (hr : expandInt m.ρ tr = some y) (h1 : (os == "==") = false) (h2 : (os == "!=") = false)
    (hv : numTest os x y = some v) :
    stepSimple (.assignTest h (.cmp tl os tr) "1" "0") m = some (.normal, { m with ρ := m.ρ.set h (boolStr v) }) := by
  simp only [stepSimple, evalTest, h1, h2, hl, hr, hv, bit]
  cases v <;> simp [boolStr]

theorem step2_cmp_streq {tl tr x y : String} (m : Cfg) (h : String) (hl : expand m.ρ tl = some x) (hr : expand m.ρ tr = some y) :
    stepSimple (.assignTest h (.cmp tl "==" tr) "1" "0") m = some (.normal, { m with ρ := m.ρ.set h (boolStr (x == y)) }) := by
  simp only [stepSimple, evalTest, hl, hr, bit]
  cases (x == y) <;> simp [boolStr]

theorem step2_cmp_strne {tl tr x y : String} (m : Cfg) (h : String) (hl : expand m.ρ tl = some x) (hr : expand m.ρ tr = some y) :
    stepSimple (.assignTest h (.cmp tl "!=" tr) "1" "0") m = some (.normal, { m with ρ := m.ρ.set h (boolStr (x != y)) }) := by
  simp only [stepSimple, evalTest, hl, hr, bit]
  cases (x != y) <;> simp [boolStr]

theorem step2_and {tl tr : String} (m : Cfg) (h : String) {x y : Bool}
    (hl : expandInt m.ρ tl = some (if x then 1 else 0)) (hr : expandInt m.ρ tr = some (if y then 1 else 0)) :
    stepSimple (.assignTest h (.log tl "&&" tr) "1" "0") m = some (.normal, { m with ρ := m.ρ.set h (boolStr (x && y)) }) := by
  simp only [stepSimple, evalTest, hl, hr, bit]
  cases x <;> cases y <;> simp [boolStr]

theorem step2_or {tl tr : String} (m : Cfg) (h : String) {x y : Bool}
    (hl : expandInt m.ρ tl = some (if x then 1 else 0)) (hr : expandInt m.ρ tr = some (if y then 1 else 0)) :
    stepSimple (.assignTest h (.log tl "||" tr) "1" "0") m = some (.normal, { m with ρ := m.ρ.set h (boolStr (x || y)) }) := by
  simp only [stepSimple, evalTest, hl, hr, bit]
  cases x <;> cases y <;> simp [boolStr]

end Tsh.Sem2
