/-
  C11 - Tokenisation is faithful: theorems about Model/Lexer.lean (the model of lexer.Tokenize).
  Quantifier: all byte strings.  Helper lemmas are in Lemmas/Lexer.lean.
-/
import TshVerif.Lemmas.Lexer
namespace Tsh.C11
open Tsh Tsh.Lexer Tsh.LexTables

/-- The hand-written scanners stand for exactly these regular-expression literals of `Tokenize`
    (re-read from the source on every run). -/
theorem regexes_as_modelled : regexes =
    ["^\\\\(x[0-9a-fA-F]{2}|u[0-9a-fA-F]{4}|U[0-9a-fA-F]{8}|[0-7]{3}|.)",
     "(?s)^\\/\\*(.*?)\\*\\/", "^\\/\\/(.*)", "^(true|false)\\b", "^-?\\d+(\\.\\d+)?",
     "[a-zA-Z_]", "[a-zA-Z0-9_]"] := by decide

/-- the token types after which `-` before digits is an operator, as modelled -/
theorem endsOperand_as_modelled :
    endsOperand = [TT_IDENTIFIER, TT_BOOL_LITERAL, TT_NUMBER_LITERAL, TT_STRING_LITERAL, TT_NIL_LITERAL,
                   TT_CLOSING_ROUND_BRACKET, TT_CLOSING_SQUARE_BRACKET] := by decide

/-! ### the loop: totality, partition, positions -/

theorem consumed_eq {s pre rest : Bytes} (h : s = pre ++ rest) : consumed s rest = pre := by
  subst h; simp [consumed]

/-- texts of a lexeme list, concatenated -/
def texts (ls : List Lexeme) : Bytes := (ls.map (·.text)).flatten

/-- every lexeme sits at the position reached by reading everything before it -/
def WellPlaced : Nat × Nat → List Lexeme → Prop
  | _, [] => True
  | p, l :: ls => (l.row, l.col) = p ∧ WellPlaced (advance p l.text) ls

theorem advance_append (p : Nat × Nat) (a b : Bytes) : advance (advance p a) b = advance p (a ++ b) := by
  simp [advance, List.foldl_append]

theorem wellPlaced_append (p : Nat × Nat) (a b : List Lexeme) :
    WellPlaced p (a ++ b) ↔ WellPlaced p a ∧ WellPlaced (advance p (texts a)) b := by
  induction a generalizing p with
  | nil => simp [WellPlaced, texts, advance]
  | cons l a ih =>
    simp only [List.cons_append, WellPlaced, ih, texts, List.map_cons, List.flatten_cons]
    rw [← advance_append]
    constructor
    · rintro ⟨h1, h2, h3⟩; exact ⟨⟨h1, h2⟩, h3⟩
    · rintro ⟨⟨h1, h2⟩, h3⟩; exact ⟨h1, h2, h3⟩

/-- Loop invariant: with enough fuel the loop never diverges, and a successful run returns the
    accumulated lexemes followed by lexemes whose texts make up exactly the remaining input. -/
theorem loop_spec : ∀ (fuel last : Nat) (pos : Nat × Nat) (s : Bytes) (acc : List Lexeme),
    s.length ≤ fuel →
    loop fuel last pos s acc ≠ .diverge ∧
    (∀ ls p, loop fuel last pos s acc = .ok (ls, p) →
      ∃ new, ls = acc.reverse ++ new ∧ texts new = s ∧ WellPlaced pos new ∧ p = advance pos s) := by
  intro fuel
  induction fuel with
  | zero =>
    intro last pos s acc hlen
    have : s = [] := List.eq_nil_of_length_eq_zero (by omega)
    subst this
    constructor
    · simp [loop]
    · intro ls p h; simp [loop] at h; obtain ⟨rfl, rfl⟩ := h
      exact ⟨[], by simp, by simp [texts], by simp [WellPlaced], by simp [advance]⟩
  | succ n ih =>
    intro last pos s acc hlen
    cases s with
    | nil =>
      constructor
      · simp [loop]
      · intro ls p h; simp [loop] at h; obtain ⟨rfl, rfl⟩ := h
        exact ⟨[], by simp, by simp [texts], by simp [WellPlaced], by simp [advance]⟩
    | cons c t =>
      simp only [loop]
      cases hstep : step last (c :: t) with
      | err => simp
      | tok ty val rest =>
        have hc := step_consumes hstep
        obtain ⟨pre, hne, hs⟩ := hc
        have hlt : rest.length ≤ n := by
          have := (step_consumes hstep).length_lt
          simp at hlen this ⊢; omega
        simp only
        have hcons : consumed (c :: t) rest = pre := consumed_eq hs
        rw [hcons]
        obtain ⟨hnd, hok⟩ := ih (if (ty == TT_SPACE || ty == TT_COMMENT) = true then last else ty) (advance pos pre) rest
          ({ ty := ty, val := val, row := pos.1, col := pos.2, text := pre } :: acc) hlt
        refine ⟨hnd, ?_⟩
        intro ls p h
        obtain ⟨new, rfl, htx, hwp, rfl⟩ := hok ls p h
        refine ⟨{ ty := ty, val := val, row := pos.1, col := pos.2, text := pre } :: new, by simp, ?_, ?_, ?_⟩
        · simp [texts] at htx ⊢; rw [htx, hs]
        · exact ⟨rfl, hwp⟩
        · rw [advance_append, hs]

/-- **Totality of the lexer** (C13 uses it too): the fuel `length (normCRLF src)` always suffices. -/
theorem lex_total (src : Bytes) : tokenizeTrace src ≠ .diverge ∧ tokenize src ≠ .diverge := by
  have h := (loop_spec (normCRLF src).length 0 (1, 1) (normCRLF src) [] (Nat.le_refl _)).1
  constructor
  · simpa [tokenizeTrace] using h
  · unfold tokenize
    cases ht : tokenizeTrace src with
    | ok a => simp
    | err => simp
    | diverge => simp [tokenizeTrace] at ht; exact absurd ht h

/-- **Every source character is accounted for, once**: the texts of all lexemes (tokens, blanks,
    comments), concatenated, are the CRLF-normalised source. -/
theorem lex_partition (src : Bytes) (ls : List Lexeme) (p : Nat × Nat)
    (h : tokenizeTrace src = .ok (ls, p)) : texts ls = normCRLF src := by
  obtain ⟨new, rfl, htx, _, _⟩ := (loop_spec _ 0 (1, 1) (normCRLF src) [] (Nat.le_refl _)).2 ls p (by simpa [tokenizeTrace] using h)
  simpa using htx

/-- **Positions**: each lexeme's row and column are those of its first character, i.e. the position
    reached by reading all the text before it (rows advance at every line feed, also inside comments
    and string literals), and the EOF token sits at the end of the text. -/
theorem lex_positions (src : Bytes) (ls : List Lexeme) (p : Nat × Nat)
    (h : tokenizeTrace src = .ok (ls, p)) : WellPlaced (1, 1) ls ∧ p = advance (1, 1) (normCRLF src) := by
  obtain ⟨new, rfl, _, hwp, hp⟩ := (loop_spec _ 0 (1, 1) (normCRLF src) [] (Nat.le_refl _)).2 ls p (by simpa [tokenizeTrace] using h)
  exact ⟨by simpa using hwp, hp⟩

/-- no lexeme is empty -/
theorem step_nonempty {last : Nat} {s : Bytes} {ty : Nat} {val rest : Bytes}
    (h : step last s = .tok ty val rest) : rest.length < s.length := (step_consumes h).length_lt

/-- non-vacuity: the source ``/* a */ x := 1 /* b */ trueish⏎`r⏎s` y`` (two block comments on one line,
    an identifier that starts like a literal, a multi-line raw string) lexes to x := 1 trueish NEWLINE
    string y EOF: the code between the comments is kept, `trueish` is one identifier, and `y` is
    reported on row 3 -/
example : (match tokenize [47, 42, 32, 97, 32, 42, 47, 32, 120, 32, 58, 61, 32, 49, 32, 47, 42, 32, 98, 32, 42, 47, 32, 116, 114, 117, 101, 105, 115, 104, 10, 96, 114, 10, 115, 96, 32, 121] with
    | .ok ts => ts.map (fun t => (t.ty, t.row, t.col))
    | _ => []) = [(28, 1, 9), (14, 1, 11), (18, 1, 14), (28, 1, 24), (27, 1, 31), (19, 2, 1), (28, 3, 4), (53, 3, 5)] := by decide

/-! ### longest match on the punctuation table, maximal identifiers, comments end at the first terminator -/

/-- In the ordered punctuation table (re-read from the source) no entry is a prefix of a later
    entry: the first entry that matches is therefore the longest one that matches. -/
theorem punct_longest_first :
    ∀ i j : Fin punctB.length, i.val < j.val → (punctB[i].1.isPrefixOf punctB[j].1) = false := by decide

theorem stripPrefix_isSome_iff (p s : Bytes) : (stripPrefix? p s).isSome = p.isPrefixOf s := by
  induction p generalizing s with
  | nil => simp [stripPrefix?]
  | cons a p ih =>
    cases s with
    | nil => simp [stripPrefix?]
    | cons x xs =>
      simp only [stripPrefix?, List.isPrefixOf]
      by_cases hx : a = x
      · subst hx; simp [ih]
      · have : (a == x) = false := by simpa using hx
        simp [this]

/-- what `scanPunct` returns is an entry of the table that is a prefix of the input, and every entry
    before it is not a prefix of the input -/
theorem scanPunct_first (tbl : List (Bytes × Nat)) :
    ∀ {s : Bytes} {ty : Nat} {v rest : Bytes}, scanPunct tbl s = some (ty, v, rest) →
      ∃ i : Fin tbl.length, tbl[i] = (v, ty) ∧ v.isPrefixOf s = true ∧
        ∀ j : Fin tbl.length, j.val < i.val → tbl[j].1.isPrefixOf s = false := by
  induction tbl with
  | nil => intro s ty v rest h; simp [scanPunct] at h
  | cons e tbl ih =>
    intro s ty v rest h
    obtain ⟨k, t⟩ := e
    simp only [scanPunct] at h
    split at h
    · rename_i r hr
      simp at h; obtain ⟨rfl, rfl, rfl⟩ := h
      refine ⟨⟨0, by simp⟩, by simp, ?_, ?_⟩
      · rw [← stripPrefix_isSome_iff, hr]; rfl
      · intro j hj; simp at hj
    · rename_i hnone
      obtain ⟨i, hi, hp, hb⟩ := ih h
      refine ⟨⟨i.val + 1, by simp⟩, by simpa using hi, hp, ?_⟩
      intro j hj
      rcases j with ⟨jv, hjv⟩
      cases jv with
      | zero =>
        simp
        have := stripPrefix_isSome_iff k s
        rw [hnone] at this
        simpa using this.symm
      | succ m =>
        have := hb ⟨m, by simpa using hjv⟩ (by simpa using hj)
        simpa using this

theorem isPrefixOf_of_both {a b s : Bytes} (ha : a.isPrefixOf s = true) (hb : b.isPrefixOf s = true)
    (hlen : a.length ≤ b.length) : a.isPrefixOf b = true := by
  induction a generalizing b s with
  | nil => simp
  | cons x a ih =>
    cases s with
    | nil => simp at ha
    | cons y s =>
      cases b with
      | nil => simp at hlen
      | cons z b =>
        simp only [List.isPrefixOf, Bool.and_eq_true, beq_iff_eq] at ha hb ⊢
        exact ⟨ha.1.trans hb.1.symm, ih ha.2 hb.2 (by simpa using hlen)⟩

/-- **Longest match for operators and separators**: the punctuation token the lexer takes is at
    least as long as every other table entry that matches at this position. -/
theorem punct_longest_match {s : Bytes} {ty : Nat} {v rest : Bytes} (h : scanPunct punctB s = some (ty, v, rest)) :
    ∀ e ∈ punctB, e.1.isPrefixOf s = true → e.1.length ≤ v.length := by
  obtain ⟨i, hi, hp, hb⟩ := scanPunct_first punctB h
  intro e he hes
  obtain ⟨j, hj⟩ := List.getElem_of_mem he
  obtain ⟨hjlt, hje⟩ := hj
  by_cases hlt : j < i.val
  · have := hb ⟨j, hjlt⟩ hlt
    simp [hje] at this
    rw [this] at hes; exact absurd hes (by simp)
  · by_cases heq : j = i.val
    · subst heq
      have : e = (v, ty) := by rw [← hje]; exact hi
      simp [this]
    · -- e comes later in the table; if it were longer, v would be a prefix of it
      have hgt : i.val < j := by omega
      rcases Nat.lt_or_ge v.length e.1.length with hl | hl
      · have hlen : v.length ≤ e.1.length := by omega
        have hpre := isPrefixOf_of_both hp hes hlen
        have hord := punct_longest_first i ⟨j, hjlt⟩ hgt
        have hvi : punctB[i].1 = v := by rw [hi]
        have hej : punctB[(⟨j, hjlt⟩ : Fin punctB.length)].1 = e.1 := by simp [hje]
        rw [hvi, hej, hpre] at hord
        exact absurd hord (by simp)
      · exact hl

/-- does the byte string contain the block-comment terminator `*/`? -/
def hasClose : Bytes → Bool
  | [] => false
  | b :: t => (b == 42 && t.head? == some 47) || hasClose t

theorem hasClose_cons (b : UInt8) (t : Bytes) :
    hasClose (b :: t) = ((b == 42 && t.head? == some 47) || hasClose t) := rfl

theorem scanBlockBody_first : ∀ (s body rest : Bytes), scanBlockBody s = some (body, rest) →
    s = body ++ 42 :: 47 :: rest ∧ hasClose body = false := by
  intro s
  induction s using scanBlockBody.induct with
  | case1 rest => intro body r h; simp [scanBlockBody] at h; obtain ⟨rfl, rfl⟩ := h; simp [hasClose]
  | case2 b rest hne ih =>
    intro body r h
    rw [scanBlockBody] at h
    · cases hr : scanBlockBody rest with
      | none => simp [hr] at h
      | some pr =>
        obtain ⟨bd, rr⟩ := pr
        simp [hr] at h
        obtain ⟨rfl, rfl⟩ := h
        obtain ⟨h1, h2⟩ := ih bd rr hr
        refine ⟨by simp [h1], ?_⟩
        rw [hasClose_cons, h2]
        simp
        intro hb
        cases bd with
        | nil => simp
        | cons x bd' =>
          simp
          intro hx
          subst hb hx
          exact hne (bd' ++ 42 :: 47 :: rr) rfl (by simp [h1])
    · exact fun r hb hr => hne r hb hr
  | case3 => intro body r h; simp [scanBlockBody] at h

theorem scanBlockBody_isSome : ∀ (s : Bytes), hasClose s = true → ∃ bd rr, scanBlockBody s = some (bd, rr) := by
  intro s
  induction s using scanBlockBody.induct with
  | case1 rest => intro _; exact ⟨[], rest, by simp [scanBlockBody]⟩
  | case2 b rest hne ih =>
    intro hclose
    rw [hasClose_cons] at hclose
    have : hasClose rest = true := by
      cases hc : hasClose rest with
      | true => rfl
      | false =>
        simp [hc] at hclose
        obtain ⟨hb, hh⟩ := hclose
        cases rest with
        | nil => simp at hh
        | cons x t => simp at hh; subst hb hh; exact (hne t rfl rfl).elim
    obtain ⟨bd, rr, hh⟩ := ih this
    refine ⟨b :: bd, rr, ?_⟩
    rw [scanBlockBody]
    · simp [hh]
    · exact fun r hb hr => hne r hb hr
  | case3 => intro h; simp [hasClose] at h

/-- **Comments end at their first terminator**: at `/*` the lexer takes a COMMENT lexeme whose body
    contains no `*/`; the text right after that first terminator is lexed as code. -/
theorem block_comment_first_terminator {last : Nat} {body : Bytes} {ty : Nat} {val rest : Bytes}
    (h : step last (47 :: 42 :: body) = .tok ty val rest) (hclose : hasClose body = true) :
    ty = TT_COMMENT ∧ body = val ++ 42 :: 47 :: rest ∧ hasClose val = false := by
  obtain ⟨bd, rr, hs⟩ := scanBlockBody_isSome body hclose
  have : step last (47 :: 42 :: body) = .tok TT_COMMENT bd rr := by
    simp [step, hs]
  rw [this] at h
  simp at h
  obtain ⟨rfl, rfl, rfl⟩ := h
  obtain ⟨h1, h2⟩ := scanBlockBody_first _ _ _ hs
  exact ⟨rfl, h1, h2⟩

end Tsh.C11
