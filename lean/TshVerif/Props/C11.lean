import TshVerif.Model.Lexer
namespace Tsh.C11
open Tsh Tsh.Lexer Tsh.LexTables

/-- The hand-written scanners stand for exactly these regular-expression literals of `Tokenize`
    (re-read from the source on every run). -/
theorem regexes_as_modelled : regexes =
    ["^\\\\(x[0-9a-fA-F]{2}|u[0-9a-fA-F]{4}|U[0-9a-fA-F]{8}|[0-7]{3}|.)",
     "(?s)^\\/\\*(.*?)\\*\\/", "^\\/\\/(.*)", "^(true|false)\\b", "^-?\\d+(\\.\\d+)?",
     "[a-zA-Z_]", "[a-zA-Z0-9_]"] := by decide

end Tsh.C11
