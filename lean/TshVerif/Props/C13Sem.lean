/-
  C13, the parser half - THE PARSER DOES NOT CRASH.

  The model of the parser (Model/Parser.lean) has four outcomes: a program, an error, `panic` and `diverge`.  `panic`
  stands at exactly the places where parser.go would crash if it got there: it indexes the argument list of a builtin
  after the arity check (`args[0]`, `args[1]`, `args[2]`), the parameter list with the position of the argument just
  parsed, the name list of a definition (`names[0]`), the value and type lists of a compound assignment.  Proved here,
  by the same induction as the typing theorem of Props/C06Sem (the postcondition calculus carries "no run ends in
  `panic`" through every function): for ALL file systems, import graphs and token sequences the parser ends in a
  program, an error or `diverge` - never in `panic`.

  `diverge` is the model's out-of-fuel outcome (the recursion of the model is by fuel, 40 x tokens + 200 per file, and
  `files + 1` levels of imports).  That this fuel always suffices is NOT proved; the correspondence run compares the
  outcome classes of model and parser on every generated input (a `diverge` of the model against an answer of the
  parser would be a disagreement), and the crash / hang search of the C13 check runs the real parser under a watchdog.
-/
import TshVerif.Props.C06Sem
namespace Tsh.C13
open Tsh Tsh.Parser

/-- **The parser never reaches one of its crash sites**, whatever it is given. -/
theorem parser_never_panics (fs : FileSys) (main : String) : Parser.parse fs main ≠ .panic :=
  C06.parser_never_panics fs main

/-- program, error, or (model only) fuel exhaustion -/
theorem parser_outcomes (fs : FileSys) (main : String) :
    (∃ p s, Parser.parse fs main = .ok p s) ∨ Parser.parse fs main = .error ∨ Parser.parse fs main = .diverge := by
  have h := parser_never_panics fs main
  cases hp : Parser.parse fs main with
  | ok p s => exact Or.inl ⟨p, s, rfl⟩
  | error => exact Or.inr (Or.inl rfl)
  | panic => exact absurd hp h
  | diverge => exact Or.inr (Or.inr rfl)

/-- the same for an imported file at any depth, in any import context -/
theorem imported_file_never_panics (depth : Nat) (fs : FileSys) (path : String) (imported : Bool) (importing : List String) :
    parseFile depth fs path imported importing ≠ .panic :=
  (fileOK_all (stmtIH_all exprIH_all) depth fs path imported importing).np

/-- and for the statement and expression parsers from any state (any token array, any position) in any context that holds
    language types -/
theorem statement_parser_never_panics (fuel : Nat) (ctx : Ctx) (hc : CtxOK ctx) (s : PSt) : evalStatement fuel ctx s ≠ .panic :=
  ((stmtIH_all exprIH_all fuel).statement ctx hc).np s

theorem expression_parser_never_panics (fuel : Nat) (ctx : Ctx) (hc : CtxOK ctx) (s : PSt) : evalExpression fuel ctx s ≠ .panic :=
  ((exprIH_all fuel).expression ctx hc).np s

/-! non-vacuity: the crash sites are real branches of the model (a builtin's argument list of the wrong length WOULD reach one) -/
example : (do let args ← (pure [] : PM (List Expr)); match args with | [v] => pure (Expr.len v) | _ => pan : PM Expr)
    { toks := #[] } = .panic := rfl

end Tsh.C13
