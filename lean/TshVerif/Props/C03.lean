import TshVerif.Model.ConvBash
namespace Tsh.C03
open Tsh Tsh.Bash

end Tsh.C03
