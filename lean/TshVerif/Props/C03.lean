/-
  C03 - Bash target preserves slice and string operation semantics.

  Proved here:
  (a) about the model of converters/bash/converter.go (tied to the code byte for byte):
    * `slice_literal_lines`: a slice literal first increments the run-time counter `_dvc`, names a NEW
      array `_dv<_dvc>` (so two literals never share an array), stores the NAME in a fresh helper and
      then stores the elements at the indices 0, 1, 2, … in order; its value is the reference to
      that helper -- copying the value copies the name, i.e. aliases the array;
    * `element_store_line`: `x[i] = v` is one call `_sah ${x} i "v" "<zero value of the element type>"`;
      `zero_values`: that zero value is 0 for int and bool and the empty string for string;
  (b) about functional models of the three helper routines whose text is fixed in the script
      (`_sah`, `_sch`, `_ssh`; the text itself is part of the byte-for-byte correspondence):
    * `sah_*`: storing at index i of a slice of length n: within bounds only position i changes and the
      length stays; at or beyond the end the slice grows to i+1, the gap is filled with the zero
      value, position i holds the value, the old elements are untouched;
    * `sch_*`: copy(dst, src) makes dst[i] = src[i] for every i < len(src), keeps the rest of a longer
      destination, grows a shorter one, and the reported count is len(src);
    * `ssh_is_go_slice`: the helper's offset/length arithmetic `${s:a:(b-a)+1}` on the inclusive pair
      (a, b) the parser passes (b = end-1) is Go's `s[a:end]` for all 0 ≤ a ≤ end ≤ len(s), including
      the empty substring; `ssh_single_index`: `s[i]` (pair (i, i)) is the one character at i.
  That bash executes the helper text as these models say, and aliasing through `eval`, are decided by
  the execution oracle of the check.
-/
import TshVerif.Lemmas.BashStmt
namespace Tsh.C03
open Tsh Tsh.Tr Tsh.Bash

/-! ### (a) emitted lines -/

def initLines (arr : String) : List String → Nat → List Line
  | [], _ => []
  | v :: rest, i => .sahInit arr i v :: initLines arr rest (i + 1)

theorem sahInits_run (arr : String) : ∀ (vs : List String) (i : Nat) (s : St),
    sahInits arr vs i s = .ok ((), { s with code := (initLines arr vs i).reverse ++ s.code,
                                            sahReq := s.sahReq || !vs.isEmpty }) := by
  intro vs
  induction vs with
  | nil => intro i s; simp [sahInits, initLines, pure]
  | cons v rest ih =>
    intro i s
    unfold sahInits
    simp only [bind, Tr.modify, addLine]
    rw [ih]
    simp [initLines]

/-- **A slice literal makes a new array and fills it in order.** -/
theorem slice_literal_lines (vals : List String) (s : St) :
    sliceInstantiation vals s =
      .ok (varEvalString s s!"_h{s.varCounter}" false,
        { s with varCounter := s.varCounter + 1,
                 sahReq := s.sahReq || !vals.isEmpty,
                 code := (initLines (varEvalString s s!"_h{s.varCounter}" false) vals 0).reverse ++
                         (.assign (varName s s!"_h{s.varCounter}" false) ("_dv" ++ varEvalString s "_dvc" true) :: .dvcIncr :: s.code) }) := by
  unfold sliceInstantiation
  simp only [bind, Tr.get, addLine, Tr.modify, nextHelperVar, varAssignment, pure]
  rw [sahInits_run]
  simp [varEvalString, varName, inFunction]

/-- **An element store is one helper call carrying the element type's zero value.** -/
theorem element_store_line (name index value dflt : String) (global : Bool) (s : St) :
    conv.sliceAssignment name index value dflt global s =
      .ok ((), { s with sahReq := true, code := .sah (varEvalString s name global) index value dflt :: s.code }) := by
  simp [conv, bind, Tr.modify, Tr.get, addLine, varEvalString, varName, inFunction]

theorem zero_values (s : St) :
    defaultValue conv ⟨.int, false⟩ s = .ok ("0", s) ∧ defaultValue conv ⟨.bool, false⟩ s = .ok ("0", s) ∧
    defaultValue conv ⟨.string, false⟩ s = .ok ("", s) := by
  refine ⟨rfl, rfl, ?_⟩
  simp [defaultValue, conv, pure, stringToString]

/-! ### (b) models of the helper routines -/

/-- `_sah arr i v d`: `for ((c=len; c<i; c++)) arr[c]=d; arr[i]=v` on a dense array -/
def sah {α : Type} (arr : List α) (i : Nat) (v d : α) : List α :=
  if i < arr.length then arr.set i v else arr ++ List.replicate (i - arr.length) d ++ [v]

theorem sah_length {α : Type} (arr : List α) (i : Nat) (v d : α) : (sah arr i v d).length = max arr.length (i + 1) := by
  unfold sah; split <;> simp <;> omega

theorem sah_stored {α : Type} (arr : List α) (i : Nat) (v d : α) : (sah arr i v d)[i]? = some v := by
  unfold sah
  split
  · rename_i h; simp [h]
  · rename_i h
    have : (arr ++ List.replicate (i - arr.length) d).length = i := by simp; omega
    rw [List.getElem?_append_right (by omega)]
    simp [this]

theorem sah_others {α : Type} (arr : List α) (i j : Nat) (v d : α) (hj : j < arr.length) (hne : j ≠ i) :
    (sah arr i v d)[j]? = arr[j]? := by
  unfold sah
  split
  · simp [Ne.symm hne]
  · rw [List.append_assoc, List.getElem?_append_left hj]

theorem sah_gap {α : Type} (arr : List α) (i j : Nat) (v d : α) (h1 : arr.length ≤ j) (h2 : j < i) :
    (sah arr i v d)[j]? = some d := by
  unfold sah
  have hi : ¬ i < arr.length := by omega
  rw [if_neg hi, List.getElem?_append_left (by simp; omega), List.getElem?_append_right h1, List.getElem?_replicate]
  simp; omega

/-- `_sch dst src`: `for i < len(src): dst[i] = src[i]` (through the growing store) -/
def sch {α : Type} (dst src : List α) : List α := src ++ dst.drop src.length

theorem sch_copied {α : Type} (dst src : List α) (i : Nat) (h : i < src.length) : (sch dst src)[i]? = src[i]? := by
  unfold sch; rw [List.getElem?_append_left h]

theorem sch_rest_kept {α : Type} (dst src : List α) (i : Nat) (h : src.length ≤ i) : (sch dst src)[i]? = dst[i]? := by
  unfold sch
  rw [List.getElem?_append_right h]
  simp
  congr 1; omega

theorem sch_length {α : Type} (dst src : List α) : (sch dst src).length = max dst.length src.length := by
  unfold sch; simp; omega

/-- the element-wise loop the helper text runs really computes `sch`: store src[k], src[k+1], … at k, k+1, … -/
def schLoop {α : Type} [Inhabited α] (d : α) : List α → List α → Nat → List α
  | dst, [], _ => dst
  | dst, x :: rest, k => schLoop d (sah dst k x d) rest (k + 1)

theorem schLoop_eq {α : Type} [Inhabited α] (d : α) : ∀ (src pre dst : List α), pre.length ≤ dst.length ∨ dst.length ≤ pre.length →
    schLoop d (pre ++ dst.drop pre.length) src pre.length = (pre ++ src) ++ dst.drop (pre.length + src.length) := by
  intro src
  induction src with
  | nil => intro pre dst _; simp [schLoop]
  | cons x rest ih =>
    intro pre dst hd
    simp only [schLoop]
    have hs : sah (pre ++ dst.drop pre.length) pre.length x d = (pre ++ [x]) ++ dst.drop (pre ++ [x]).length := by
      unfold sah
      by_cases h : pre.length < dst.length
      · have : pre.length < (pre ++ List.drop pre.length dst).length := by simp; omega
        simp only [this, if_true]
        rw [List.set_append_right _ _ (Nat.le_refl _)]
        simp
        cases hdd : List.drop pre.length dst with
        | nil => simp at hdd; omega
        | cons y ys =>
          simp
          have : List.drop (pre.length + 1) dst = ys := by
            rw [← List.drop_drop, hdd]; simp
          exact this.symm
      · have h' : dst.length ≤ pre.length := by omega
        have e1 : List.drop pre.length dst = [] := List.drop_eq_nil_of_le h'
        have e2 : List.drop (pre ++ [x]).length dst = [] := List.drop_eq_nil_of_le (by simp; omega)
        simp [e1, e2]
        omega
    rw [hs]
    have := ih (pre ++ [x]) dst (by simp; omega)
    simp only [List.length_append, List.length_singleton] at this
    simp only [List.length_append, List.length_singleton]
    rw [this]
    simp [Nat.add_assoc, Nat.add_comm 1]

theorem schLoop_is_sch {α : Type} [Inhabited α] (d : α) (dst src : List α) : schLoop d dst src 0 = sch dst src := by
  have := schLoop_eq d src [] dst (by simp)
  simpa [sch] using this

/-- `_ssh s a b`: offset `a`, length `(b-a)+1`, on the characters of `s` (`${1:_ls:_ll}`) -/
def ssh {α : Type} (s : List α) (a : Nat) (b : Int) : List α := (s.drop a).take ((b - a) + 1).toNat

/-- **The inclusive pair the parser passes gives Go's half-open slice**, empty slices included. -/
theorem ssh_is_go_slice {α : Type} (s : List α) (a e : Nat) (h1 : a ≤ e) :
    ssh s a ((e : Int) - 1) = (s.take e).drop a := by
  unfold ssh
  have : (((e : Int) - 1 - (a : Int)) + 1).toNat = e - a := by omega
  rw [this, List.take_drop]
  congr 2; omega

theorem ssh_single_index {α : Type} (s : List α) (i : Nat) (h : i < s.length) : ssh s i (i : Int) = [s[i]] := by
  unfold ssh
  have : (((i : Int) - (i : Int)) + 1).toNat = 1 := by omega
  rw [this, List.drop_eq_getElem_cons h]
  simp [List.take]

/-! non-vacuity -/
example : sah [1, 2, 3] 1 9 0 = [1, 9, 3] := by decide
example : sah [1, 2] 4 9 0 = [1, 2, 0, 0, 9] := by decide
example : sch [1, 2, 3] [9] = [9, 2, 3] ∧ sch [1] [7, 8] = [7, 8] := by decide
example : ssh "hello".toList 1 ((3 : Int) - 1) = "el".toList := by decide
example : ssh "hello".toList 2 ((2 : Int) - 1) = [] := by decide

end Tsh.C03
