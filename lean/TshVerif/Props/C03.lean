import TshVerif.Model.EmitBash
namespace Tsh.C03
open Tsh Tsh.Bash

end Tsh.C03
