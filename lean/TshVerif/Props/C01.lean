/-
  C01 - Bash target preserves scalar expression and control-flow semantics.

  Proved here, about the model of transpiler.go + converters/bash/converter.go (which the check ties
  to the real code byte for byte on every run) and for EVERY well-formed AST (`wfStmts`, checked on
  every AST the real parser returns):
    * the emitted script is the shebang, the helper routines, and a line sequence of the
      grammar `Shape .blk` -- every `if` has its `fi`, every `while` its `done`, the guarded
      increment and the break-unless line of a loop sit where the `for` meaning needs them
      (increment first, then the condition statements, then the exit test, then the body);
    * **every loop has its own first-iteration flag** `_fv<n>`: the flags are numbered 0,1,2,… in
      the order the loops start, no number is used twice (the state `forCounter` of the anchor);
      the guarded increment of a loop tests and sets the flag of that very loop (it is part of the
      grammar: `incrStart n … incrFlagSet n` inside `forFlagInit n`);
    * expressions never emit control-flow lines and never touch the loop stack;
    * helper variables `_h<n>` are allocated by a strictly increasing counter.
    * **semantic preservation for the scalar fragment** (`bash_preserves_scalar_semantics`): for every program
      made of integer / boolean / string expressions, single assignments, if / else-if / else chains, loops
      with break and continue, print and panic, the emitted lines ARE a block structure whose execution in the
      bash model `Sem/Bash` prints what the source semantics `Sem/Src` prints and ends the same way - for every
      input program of the fragment, every nesting depth and every number of loop iterations.
  What a theorem cannot reach - that /bin/bash reads the rendered text as that block structure and executes its
  lines as `Sem/Bash` says, and that `Sem/Src` is Go's meaning - is decided in every run by executing both models
  next to /bin/bash and the reference interpreter on the same generated programs (DESIGN.md, C01).
-/
import TshVerif.Lemmas.BashStmt
import TshVerif.Lemmas.SemProg
import TshVerif.Lemmas.SemDet
namespace Tsh.C01
open Tsh Tsh.Tr Tsh.Bash

/-- **Shape of every emitted bash script.** -/
theorem compile_shape (p : Program) (hw : wfStmts p = true) (ls : List Line) (h : compile p = .ok ls) :
    ∃ (st : St) (body : List Line) (n : Nat), ls = .shebang :: (helperLines st ++ body) ∧ Shape .blk 0 n body := by
  unfold compile at h
  split at h
  · rename_i u s hrun
    simp at h
    unfold evalProgram at hrun
    obtain ⟨_, s1, h1, hrun⟩ := bind_ok hrun
    obtain ⟨_, s2, h2, h3⟩ := bind_ok hrun
    have e1 : s1 = { ({} : St) with startCode := [.shebang] } := by
      have : addStartLine .shebang ({} : St) = .ok ((), s1) := h1
      simp [addStartLine, Tr.modify] at this
      exact this.symm
    have e2 := evalStmts_eff p hw _ _ _ h2
    have e3 : s = s2 := by
      have : (pure () : BM Unit) s2 = .ok (u, s) := h3
      exact (pure_ok this).2
    obtain ⟨body, hc, hs⟩ := e2.code
    refine ⟨s, body, s2.forCounter, ?_, ?_⟩
    · rw [← h, e3]
      unfold dumpLines
      rw [e2.startCode, hc, e1]
      simp
    · rw [e1] at hs; exact hs
  · simp at h
  · simp at h

/-- **No two loops share a first-iteration flag**: the `_fv<n>=` initialisations of the script are
    numbered 0, 1, …, n-1 in script order. -/
theorem loop_flags_numbered (p : Program) (hw : wfStmts p = true) (ls : List Line) (h : compile p = .ok ls) :
    ∃ (st : St) (body : List Line) (n : Nat), ls = .shebang :: (helperLines st ++ body) ∧
      flagInits body = List.range' 0 n := by
  obtain ⟨st, body, n, hl, hs⟩ := compile_shape p hw ls h
  exact ⟨st, body, n, hl, by simpa using hs.flags⟩

theorem loop_flags_distinct (p : Program) (hw : wfStmts p = true) (ls : List Line) (h : compile p = .ok ls) :
    ∃ (st : St) (body : List Line), ls = .shebang :: (helperLines st ++ body) ∧ (flagInits body).Nodup := by
  obtain ⟨st, body, n, hl, hf⟩ := loop_flags_numbered p hw ls h
  exact ⟨st, body, hl, by rw [hf]; exact List.nodup_range'⟩

/-- expressions (operands, conditions, arguments) emit only simple commands and leave the loop
    and function stacks and counters alone -/
theorem expressions_emit_simple_lines (e : Expr) (used : Bool) (s s' : St) (vs : List String)
    (h : evalExpr conv e used s = .ok (vs, s')) :
    s'.fors = s.fors ∧ s'.forCounter = s.forCounter ∧ ∃ new, s'.code = new ++ s.code ∧ ∀ l ∈ new, l.isSimple = true := by
  have f := (evalExpr_simple e used).frame _ _ _ h
  exact ⟨f.fors, f.forCounter, f.code⟩

/-- helper variables are handed out by a strictly increasing counter: two requests never return the same name index -/
theorem helper_counter_increases (s s' : St) (h : String) (hr : nextHelperVar s = .ok (h, s')) :
    h = s!"_h{s.varCounter}" ∧ s'.varCounter = s.varCounter + 1 := by
  simp [nextHelperVar] at hr
  obtain ⟨rfl, rfl⟩ := hr
  exact ⟨rfl, rfl⟩

/-! non-vacuity: a concrete program with a nested loop, an if/else-if/else chain and a function is well-formed,
    compiles, and its two loops get the flags 0 and 1 -/
private def x : Var := { name := "x", vt := ⟨.int, false⟩, global := true, pub := false }
private def sample : Program :=
  [ .varDef [x] [.intLit 0],
    .forS (some (.varDef [x] [.intLit 0])) (.compare "<" (.varEval x) (.intLit 3)) (some (.assign [x] [.binary "+" (.varEval x) (.intLit 1)]))
      [ .forS none (.boolLit true) none [.brk],
        .ifS (.compare "==" (.varEval x) (.intLit 1)) [.print [.varEval x]] [(.boolLit false, [])] [.cont] ],
    .funcDef "f" false [] [] [.ret []] ]

example : wfStmts sample = true := by decide
#guard (match compile sample with | .ok ls => flagInits ls | _ => []) == [0, 1]

/-! ### semantic preservation (scalar fragment) -/

open Tsh.Sem in
/-- **The bash script means what the program means.**  For every program `p` of the scalar fragment:
    the emitted script is the shebang followed by the lines of a block structure `cmds`, and whenever the
    source semantics runs `p` to an outcome `o` (end of program, or `exit 1` after `panic`) with printed lines
    `out`, the bash model runs `cmds` from the empty store to the same outcome with the same printed lines.
    No bound on program size, nesting or iterations (`fuel` is universally quantified: every terminating run). -/
theorem bash_preserves_scalar_semantics (p : Program) (hf : Src.fragStmts p = true) (ls : List Line)
    (hc : compile p = .ok ls) :
    ∃ cmds : List Cmd, ls = .shebang :: flats cmds ∧
      ∀ fuel o out, Src.runProgram fuel p = some (o, out) →
        ∃ c' : Cfg, ExecCmds cmds Cfg.init o c' ∧ c'.out = out := by
  unfold compile at hc
  split at hc
  · rename_i u s hrun
    simp only [Res.ok.injEq] at hc
    unfold evalProgram at hrun
    obtain ⟨_, s1, h1, hrun⟩ := bind_ok hrun
    obtain ⟨_, s2, h2, h3⟩ := bind_ok hrun
    have e1 : s1 = { ({} : St) with startCode := [.shebang] } := by
      have : addStartLine .shebang ({} : St) = .ok ((), s1) := h1
      simp [addStartLine, Tr.modify] at this
      exact this.symm
    have e3 : s = s2 := by
      have : (pure () : BM Unit) s2 = .ok (u, s) := h3
      exact (pure_ok this).2
    have h01 : s1.funcs = [] := by rw [e1]
    obtain ⟨cmds, n, m, e2, sim⟩ := stmts_sem p hf s1 s2 h01 h2
    refine ⟨cmds, ?_, ?_⟩
    · rw [← hc, e3, e2, e1]
      simp [dumpLines, adv2, helperLines]
    · intro fuel o out hs
      unfold Src.runProgram at hs
      split at hs
      · rename_i o' c' hs'
        simp only [Option.some.injEq, Prod.mk.injEq] at hs
        obtain ⟨rfl, rfl⟩ := hs
        obtain ⟨ρ', ex, _, _⟩ := sim fuel Src.SCfg.init o' c' hs' (fun _ => "") (by intro x v hx; simp [Src.SCfg.init] at hx)
        exact ⟨⟨ρ', c'.out⟩, ex, rfl⟩
      · simp at hs
  · simp at hc
  · simp at hc

open Tsh.Sem in
/-- **The outcome is unique, and it is the one the executable bash model computes.**  The relation `ExecCmds`
    is deterministic and the interpreter `execCmds` - the function that is run next to /bin/bash on the same
    scripts in every check - is sound for it: so for a program of the fragment, whenever the source semantics
    and the interpreter both finish, they give the same outcome and the same printed lines. -/
theorem bash_model_outcome_unique (p : Program) (hf : Src.fragStmts p = true) (ls : List Line)
    (hc : compile p = .ok ls) :
    ∃ cmds : List Cmd, ls = .shebang :: flats cmds ∧
      ∀ f1 f2 o1 out1 o2 c2, Src.runProgram f1 p = some (o1, out1) → execCmds f2 cmds Cfg.init = some (o2, c2) →
        o1 = o2 ∧ out1 = c2.out := by
  obtain ⟨cmds, e, sem⟩ := bash_preserves_scalar_semantics p hf ls hc
  refine ⟨cmds, e, ?_⟩
  intro f1 f2 o1 out1 o2 c2 h1 h2
  obtain ⟨c', ex, eo⟩ := sem f1 o1 out1 h1
  obtain ⟨e1, e2⟩ := exec_agrees h2 ex
  exact ⟨e1.symm, by rw [← eo, e2]⟩

open Tsh.Sem in
/-- the hypotheses are satisfiable and the conclusion is about real behaviour: a counting loop with a
    `continue`, in the fragment, runs in the source semantics and prints 0, 2 -/
def semSample : Program :=
  let i : Var := ⟨"i", ⟨.int, false⟩, true, false⟩
  [.forS (some (.varDef [i] [.intLit 0])) (.compare "<" (.varEval i) (.intLit 3))
      (some (.assign [i] [.binary "+" (.varEval i) (.intLit 1)]))
      [.ifS (.compare "==" (.varEval i) (.intLit 1)) [.cont] [] [], .print [.varEval i]]]

example : Tsh.Sem.Src.fragStmts semSample = true := by decide
#guard Tsh.Sem.Src.runProgram 100 semSample == some (.normal, ["0", "2"])
#guard (match compile semSample with | .ok ls => Tsh.Sem.run 100 ls == some (.normal, ["0", "2"]) | _ => false)

end Tsh.C01
