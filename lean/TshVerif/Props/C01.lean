import TshVerif.Model.ConvBash
namespace Tsh.C01
open Tsh Tsh.Bash

end Tsh.C01
