import TshVerif.Model.Cli
namespace Tsh.C19
open Tsh Tsh.Cli

end Tsh.C19
