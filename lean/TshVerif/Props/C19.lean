/-
  C19 - The tsh command writes exactly the library's output, or nothing.
  Theorems about Model/Cli.lean (the model of tsh.go) for every argument list, every file system and
  every behaviour of the library (`transpile` is a parameter).
-/
import TshVerif.Model.Cli
namespace Tsh.C19
open Tsh Tsh.Cli

variable (fs : FS) (transpile : Target → Option Bytes)

/-- the loop over the requested outputs: what has been written so far is kept, every further write
    is `(outPath o t, transpile t)` for a requested target `t`, in request order -/
theorem runConvs_writes (o : Opts) : ∀ (ts : List Target) (acc : List (String × Bytes)),
    ∃ ws, (runConvs fs o transpile ts acc).writes = acc ++ ws ∧
      ∀ w ∈ ws, ∃ t ∈ ts, w.1 = outPath o t ∧ transpile t = some w.2 := by
  intro ts
  induction ts with
  | nil => intro acc; exact ⟨[], by simp [runConvs], by simp⟩
  | cons t rest ih =>
    intro acc
    simp only [runConvs]
    split
    · exact ⟨[], by simp, by simp⟩
    · rename_i script hs
      split
      · exact ⟨[], by simp, by simp⟩
      · split
        · exact ⟨[], by simp, by simp⟩
        · obtain ⟨ws, h1, h2⟩ := ih (acc ++ [(outPath o t, script)])
          refine ⟨(outPath o t, script) :: ws, by simp [h1], ?_⟩
          intro w hw
          simp at hw
          rcases hw with rfl | hw
          · exact ⟨t, by simp, rfl, hs⟩
          · obtain ⟨t', ht', h3⟩ := h2 w hw
            exact ⟨t', by simp [ht'], h3⟩

/-- **Only the library's output is written**: every file `tsh` writes is the output file of a
    requested target and holds exactly the bytes the library returned for that target. -/
theorem cli_writes_only_library_output (args : List String) :
    ∀ w ∈ (run fs args transpile).writes, ∃ o t, parseOptions fs args = some o ∧ t ∈ o.convs ∧
      w.1 = outPath o t ∧ transpile t = some w.2 := by
  intro w hw
  unfold run at hw
  split at hw
  · simp at hw
  · rename_i o ho
    obtain ⟨ws, h1, h2⟩ := runConvs_writes fs transpile o o.convs []
    rw [h1] at hw
    simp at hw
    obtain ⟨t, ht, h3⟩ := h2 w hw
    exact ⟨o, t, ho, ht, h3⟩

/-- status 0 means every requested target was transpiled and written -/
theorem runConvs_ok (o : Opts) : ∀ (ts : List Target) (acc : List (String × Bytes)),
    (runConvs fs o transpile ts acc).status = 0 →
      ∀ t ∈ ts, ∃ script, transpile t = some script ∧ (outPath o t, script) ∈ (runConvs fs o transpile ts acc).writes := by
  intro ts
  induction ts with
  | nil => intro acc _ t ht; simp at ht
  | cons t rest ih =>
    intro acc hst t' ht'
    cases hs : transpile t with
    | none => simp [runConvs, hs] at hst
    | some script =>
      by_cases hne : (clean o.inp == outPath o t) = true
      · simp [runConvs, hs, hne] at hst
      · by_cases hnd : fs.isDir (outPath o t) = true
        · simp [runConvs, hs, hne, hnd] at hst
        · have hrun : runConvs fs o transpile (t :: rest) acc = runConvs fs o transpile rest (acc ++ [(outPath o t, script)]) := by
            simp [runConvs, hs, hne, hnd]
          rw [hrun] at hst ⊢
          simp at ht'
          rcases ht' with rfl | ht'
          · refine ⟨script, hs, ?_⟩
            obtain ⟨ws, h1, _⟩ := runConvs_writes fs transpile o rest (acc ++ [(outPath o t', script)])
            rw [h1]; simp
          · exact ih _ hst t' ht'

/-- **A successful run writes every requested output**: exit status 0 implies that for each
    requested target the output file was written with the library's bytes. -/
theorem cli_success_writes_all (args : List String) (h : (run fs args transpile).status = 0) :
    ∃ o, parseOptions fs args = some o ∧
      ∀ t ∈ o.convs, ∃ script, transpile t = some script ∧ (outPath o t, script) ∈ (run fs args transpile).writes := by
  cases ho : parseOptions fs args with
  | none => simp [run, ho] at h
  | some o =>
    refine ⟨o, rfl, ?_⟩
    simp only [run, ho] at h ⊢
    exact runConvs_ok fs transpile o o.convs [] h

/-- **Errors are reported**: if the library fails for some requested target, the exit status is not 0. -/
theorem cli_error_nonzero (args : List String) (o : Opts) (ho : parseOptions fs args = some o)
    (t : Target) (ht : t ∈ o.convs) (hfail : transpile t = none) : (run fs args transpile).status ≠ 0 := by
  intro h
  obtain ⟨o', ho', hall⟩ := cli_success_writes_all fs transpile args h
  rw [ho] at ho'
  cases ho'
  obtain ⟨script, hs, _⟩ := hall t ht
  rw [hfail] at hs
  cases hs

/-- **Nothing is written for a failing target** -/
theorem cli_failing_target_not_written (args : List String) (t : Target) (hfail : transpile t = none) :
    ∀ w ∈ (run fs args transpile).writes, ∀ o, parseOptions fs args = some o → w.1 = outPath o t →
      ∃ t', t' ≠ t ∧ w.1 = outPath o t' := by
  intro w hw o ho hp
  obtain ⟨o', t', ho', _, h1, h2⟩ := cli_writes_only_library_output fs transpile args w hw
  rw [ho] at ho'; cases ho'
  refine ⟨t', ?_, h1⟩
  intro heq; subst heq
  rw [hfail] at h2; cases h2

/-- **Invalid options write nothing and fail** -/
theorem cli_bad_options (args : List String) (h : parseOptions fs args = none) :
    (run fs args transpile).status = 2 ∧ (run fs args transpile).writes = [] := by
  simp [run, h]

/-- **The input is never overwritten**: no write goes to the (cleaned) input path. -/
theorem cli_input_untouched (args : List String) :
    ∀ w ∈ (run fs args transpile).writes, ∀ o, parseOptions fs args = some o → w.1 ≠ clean o.inp := by
  intro w hw o ho
  unfold run at hw
  rw [ho] at hw
  simp only at hw
  -- generalise over the accumulator
  have key : ∀ (ts : List Target) (acc : List (String × Bytes)), (∀ x ∈ acc, x.1 ≠ clean o.inp) →
      ∀ x ∈ (runConvs fs o transpile ts acc).writes, x.1 ≠ clean o.inp := by
    intro ts
    induction ts with
    | nil => intro acc hacc x hx; simpa [runConvs] using hacc x (by simpa [runConvs] using hx)
    | cons t rest ih =>
      intro acc hacc x hx
      simp only [runConvs] at hx
      split at hx
      · exact hacc x hx
      · split at hx
        · exact hacc x hx
        · rename_i hne
          split at hx
          · exact hacc x hx
          · refine ih _ ?_ x hx
            intro y hy
            simp at hy
            rcases hy with hy | rfl
            · exact hacc y hy
            · exact fun h => hne (by simp at h; simp [h])
  exact key o.convs [] (by simp) w hw

/-- non-vacuity (evaluated, a test): a concrete successful invocation with two targets, one of them named twice -/
def exampleRun : Result :=
  run { files := [("prog.tsh", [1])], dirs := ["out", "."] }
    ["-t", "bash", "-o", "out", "-i", "prog.tsh", "-t", "batch", "-t", "bash"] (fun t => some (if t == .bash then [7] else [8]))

#guard exampleRun.status == 0 && exampleRun.writes == [("out/prog.sh", [7]), ("out/prog.bat", [8]), ("out/prog.sh", [7])]

/-- **An option without its value is a bad option**: an argument list of odd length - a single trailing argument after the
    pairs, whatever it is - is rejected, for every file system and every pair in front of it (fix: it had been ignored). -/
theorem parsePairs_odd : ∀ (args : List String) (o : Opts), args.length % 2 = 1 → parsePairs fs args o = none
  | [], _, h => by simp at h
  | [_], _, _ => rfl
  | sw :: v :: rest, o, h => by
    have hr : rest.length % 2 = 1 := by simp only [List.length_cons] at h; omega
    unfold parsePairs
    split
    · split
      · rfl
      · split
        · rfl
        · exact parsePairs_odd rest _ hr
    · split
      · split
        · rfl
        · split
          · rfl
          · exact parsePairs_odd rest _ hr
      · split
        · split
          · exact parsePairs_odd rest _ hr
          · rfl
        · rfl

theorem trailing_argument_is_rejected (args : List String) (h : args.length % 2 = 1) (transpile : Target → Option Bytes) :
    (run fs args transpile).status ≠ 0 ∧ (run fs args transpile).writes = [] := by
  have : parseOptions fs args = none := by simp [parseOptions, parsePairs_odd fs args {} h]
  simp [run, this]

end Tsh.C19
