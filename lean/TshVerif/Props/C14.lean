import TshVerif.Model.Parser
import TshVerif.Generated.Facts
namespace Tsh.C14
open Tsh Tsh.Parser

/-- The only places where non-test code iterates over a Go map (iteration order is random), calls
    `maps.*`, declares package-level variables or asks the environment -- re-extracted from the source
    on every run.  Each entry is accounted for in DESIGN.md (C14): the merge loop is modelled with an
    arbitrary order (`merge_perm_invariant`), `convMapping` only feeds an error message and `tsh.go`
    (C19), the package-level variables are read-only tables, `filepath.Abs`/`os.Executable` only
    locate files. -/
theorem facts_as_audited :
    Facts.mapRanges = ["parser/parser.go:evaluateImports:importParser.usedFuncs", "tsh.go:parseOptions:convMapping"] ∧
    Facts.mapsCalls = ["parser/parser.go:clone:maps.Clone", "parser/parser.go:clone:maps.Clone", "parser/parser.go:clone:maps.Clone",
                       "parser/parser.go:evaluateFunctionDefinition:maps.DeleteFunc"] ∧
    Facts.pkgVars = ["lexer/lexer.go:nonAlphabeticTokens", "lexer/lexer.go:keywords", "parser/parser.go:typeMapping", "tsh.go:convMapping"] ∧
    Facts.envCalls = ["parser/parser.go:parse:filepath.Abs", "parser/parser.go:evaluateImports:os.Executable"] := by
  decide

/-- **Where state can live**: the fields of the transpiler object, of the two converters, of the
    parser and of its context are exactly the audited ones (re-extracted on every run).  The
    transpiler object stores only the current converter; a converter and a parser are created per
    `Transpile` call.  The Lean models mirror exactly these fields (`Bash.St`, `Batch.St`, the parser
    model's state), so a field added to the code without a counterpart in the model is reported. -/
theorem state_structs_as_audited :
    Facts.stateStructs =
      ["converters/bash/converter.go:converter: interpreter string; startCode []string; code []string; varCounter int; forCounter int; fors []int; funcs []funcInfo; funcCounter int; sliceAssignmentHelperRequired bool; sliceCopyHelperRequired bool; stringSubscriptHelperRequired bool",
       "converters/batch/converter.go:converter: startCode []string; helperCode []string; globalCode []string; previousFunctionName string; functionsCode [][]string; endCode []string; varCounter int; ifCounter int; forCounter int; endLabels []string; funcs []funcInfo; funcCounter int; fors []forInfo; ifs []ifInfo; lfSet bool; appCallHelperRequired bool; readHelperRequired bool; sliceAssignmentHelperRequired bool; sliceCopyHelperRequired bool; sliceLenSetHelperRequired bool; sliceLenGetHelperRequired bool; stringSubscriptHelperRequired bool; stringLenHelperRequired bool; fileWriteHelperRequired bool; echoHelperRequired bool",
       "parser/parser.go:context: imports map[string]string; variables map[string]Variable; functions map[string]FunctionDefinition; scopeStack []scope",
       "parser/parser.go:Parser: tokens []lexer.Token; index int; path string; prefix string; currFunc string; importing []string; usedFuncs map[string][]string",
       "transpiler/transpiler.go:transpiler: converter Converter"] := by
  rfl

end Tsh.C14
