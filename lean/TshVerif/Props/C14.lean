import TshVerif.Model.Parser
import TshVerif.Generated.Facts
namespace Tsh.C14
open Tsh Tsh.Parser

/-- The only places where non-test code iterates over a Go map (iteration order is random), calls
    `maps.*`, declares package-level variables or asks the environment -- re-extracted from the source
    on every run.  Each entry is accounted for in DESIGN.md (C14): the merge loop is modelled with an
    arbitrary order (`merge_perm_invariant`), `convMapping` only feeds an error message and `tsh.go`
    (C19), the package-level variables are read-only tables, `filepath.Abs`/`os.Executable` only
    locate files. -/
theorem facts_as_audited :
    Facts.mapRanges = ["parser/parser.go:evaluateImports:importParser.usedFuncs", "tsh.go:parseOptions:convMapping"] ∧
    Facts.mapsCalls = ["parser/parser.go:clone:maps.Clone", "parser/parser.go:clone:maps.Clone", "parser/parser.go:clone:maps.Clone",
                       "parser/parser.go:evaluateFunctionDefinition:maps.DeleteFunc"] ∧
    Facts.pkgVars = ["lexer/lexer.go:nonAlphabeticTokens", "lexer/lexer.go:keywords", "parser/parser.go:typeMapping", "tsh.go:convMapping"] ∧
    Facts.envCalls = ["parser/parser.go:parse:filepath.Abs", "parser/parser.go:evaluateImports:os.Executable"] := by
  decide

end Tsh.C14
