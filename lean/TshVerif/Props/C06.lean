import TshVerif.Model.Parser
namespace Tsh.C06
open Tsh Tsh.Parser

end Tsh.C06
