/-
  C06 - Ill-typed programs are never translated; typing does not depend on the target.

  The typing discipline is stated as an executable checker on elaborated ASTs (Model/Typed.lean:
  `Expr.typed`, `Stmt.typed` -- Go's rules for operators, conditions, indices, slice elements, the
  README's signatures for the builtins, value counts of definitions and assignments).  It is run on
  every AST the real parser returns in every correspondence run (an accepted program whose AST is not
  typed is reported with the program as the failing input).  Proved here:
    * `typed_programs_are_translated`: EVERY typed AST is translated by the transpiler walk + bash
      converter without an error and without a panic: the converters' own operator/type switches
      (the "second line of defence") never fire on a typed AST, so acceptance is decided by the parser
      alone -- which is target independent by construction (`parse_does_not_see_the_target`);
    * `typed_programs_are_translated_batch`, `acceptance_is_target_independent`: the same for the Batch converter
      (additionally needs the placement rules: its construct stacks are accessed without checks), hence on
      every typed and well-placed AST both targets produce a script;
    * `ill_typed_operator_is_rejected_*`: the converse for the second line of defence: a bool or slice
      operand of an arithmetic operator, an unknown comparison for the type, an unknown unary or
      logical operator make the bash converter fail (no script);
    * `operator_tables`: the operator sets per type, as theorems.
  The parser's own checks (positions x offered types) are decided by the exhaustive typed-position
  table of the check and the AST correspondence with the parser model.
-/
import TshVerif.Lemmas.BashTotal
import TshVerif.Lemmas.BatchTotal
namespace Tsh.C06
open Tsh Tsh.Tr Tsh.Bash

/-- **Every typed program is translated** (bash target): a script, no error, no panic. -/
theorem typed_programs_are_translated (p : Program) (ht : typedProgram p = true) : ∃ ls, compile p = .ok ls :=
  compile_total p ht

/-- **Every typed, well-placed program is translated** (Batch target) -/
theorem typed_programs_are_translated_batch (p : Program) (ht : typedProgram p = true) (hp : placedStmts {} p = true) :
    ∃ ls, Batch.compile p = .ok ls :=
  Batch.compile_total p ht hp

/-- **Acceptance does not depend on the target**: on every typed and well-placed AST BOTH emitters return a script.
    (`placedStmts {}` is strict: `break` only inside a loop.  The one program shape the real parser accepts outside
    it -- `break` in a `switch` that is not in a loop -- is the known finding break-in-switch, where Batch fails.) -/
theorem acceptance_is_target_independent (p : Program) (ht : typedProgram p = true) (hp : placedStmts {} p = true) :
    (∃ sh, Bash.emitBash p = .ok sh) ∧ (∃ bat, Batch.emitBatch p = .ok bat) := by
  obtain ⟨l1, h1⟩ := Bash.compile_total p ht
  obtain ⟨l2, h2⟩ := Batch.compile_total p ht hp
  exact ⟨⟨_, by unfold Bash.emitBash; rw [h1]⟩, ⟨_, by unfold Batch.emitBatch; rw [h2]⟩⟩

/-- typed programs are well-formed: all structural theorems (C01, C16) apply to them -/
theorem typed_programs_are_wellformed (p : Program) (ht : typedProgram p = true) : wfStmts p = true :=
  typedStmts_wf p ht

/-- **Operator tables**: arithmetic only on int, `+` also on string, nothing on bool and slices;
    ordering comparisons only on int. -/
theorem operator_tables :
    (∀ op, binaryAllowed ⟨.bool, false⟩ op = false) ∧
    (∀ op dt, binaryAllowed ⟨dt, true⟩ op = false) ∧
    (∀ op, binaryAllowed ⟨.string, false⟩ op = (op == "+")) ∧
    (∀ op, compareAllowed ⟨.bool, false⟩ op = (op == "==" || op == "!=")) ∧
    (∀ op, compareAllowed ⟨.string, false⟩ op = (op == "==" || op == "!=")) ∧
    (∀ op dt, compareAllowed ⟨dt, true⟩ op = false) := by
  have e1 : (DataType.bool == DataType.int) = false := by decide
  have e2 : (DataType.bool == DataType.string) = false := by decide
  have e3 : (DataType.string == DataType.int) = false := by decide
  have e4 : (DataType.string == DataType.bool) = false := by decide
  refine ⟨?_, ?_, ?_, ?_, ?_, ?_⟩
  · intro op; simp [binaryAllowed]
  · intro op dt; simp [binaryAllowed]
  · intro op; simp [binaryAllowed]
  · intro op; simp [compareAllowed, e1, e2]
  · intro op; simp [compareAllowed, e3, e4]
  · intro op dt; simp [compareAllowed]

/-- second line of defence: an arithmetic operator on an operand type that does not allow it makes the converter fail -/
theorem ill_typed_operator_is_rejected_binary (l op r : String) (vt : ValueType) (h : binaryAllowed vt op = false) (s : St) :
    ∃ m, binaryOp l op r vt s = .error m := by
  unfold binaryOp notAllowedBin
  simp only [bind, nextHelperVar]
  by_cases hs : vt.isSlice = true
  · simp [hs, Tr.fail]
  · simp only [hs, Bool.false_eq_true, if_false]
    simp only [binaryAllowed, Bool.not_eq_true] at h hs
    cases hd : vt.dt <;> simp [hd, hs, Tr.fail] at h ⊢
    · have : (op == "*" || op == "/" || op == "%" || op == "+" || op == "-") = false := by
        simpa [Bool.or_eq_false_iff] using h
      simp [this, Tr.fail]
    · simp [h, Tr.fail]

theorem ill_typed_operator_is_rejected_unary (e op : String) (h : (op == "!") = false) (s : St) :
    ∃ m, unaryOp e op s = .error m := by
  unfold unaryOp
  simp [bind, nextHelperVar, h, Tr.fail]

theorem ill_typed_operator_is_rejected_logical (l op r : String) (h : (op == "&&" || op == "||") = false) (s : St) :
    ∃ m, logicalOp l op r s = .error m := by
  unfold logicalOp
  simp [h, Tr.fail]

/-! non-vacuity: a typed program with a function, a call, a loop and slices -/
private def xi : Var := { name := "x", vt := ⟨.int, false⟩, global := true, pub := false }
private def xs : Var := { name := "xs", vt := ⟨.int, true⟩, global := true, pub := false }
private def sample : Program :=
  [ .varDef [xi] [.intLit 0],
    .varDef [xs] [.sliceNew .int [.intLit 1, .binary "+" (.varEval xi) (.intLit 2)]],
    .funcDef "f" false [⟨.int, false⟩] [] [.ret [.intLit 1]],
    .forS none (.compare "<" (.varEval xi) (.len (.varEval xs))) (some (.assign [xi] [.binary "+" (.varEval xi) (.intLit 1)]))
      [ .sliceAssign xs (.varEval xi) (.call "f" [⟨.int, false⟩] []), .print [.sliceEval (.varEval xs) (.varEval xi) .int] ] ]
example : typedProgram sample = true := by decide
example : typedProgram [.varDef [xi] [.binary "+" (.boolLit true) (.boolLit false)]] = false := by decide

end Tsh.C06
