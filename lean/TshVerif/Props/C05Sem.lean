/-
  C05 - Batch target preserves the program semantics under cmd.exe's rules: SEMANTIC PRESERVATION.

  Three theorems about the model of transpiler.go + converters/batch/converter.go, strongest last:
    * `batch_preserves_straight_line_semantics_partial` - definitions / assignments (single or simultaneous), print, a final
      panic: the emitted LINES, run one after the other by `Sem/Cmd.runLinesB`, do what the program does;
    * `batch_preserves_conditional_semantics_partial` - plus if / else-if / else chains and panic anywhere: the emitted lines
      are `flats` of a block tree (`Sem/CmdTree`) whose execution `ExecBs` does what the program does;
    * `batch_preserves_scalar_semantics` - the whole scalar fragment: plus `for` loops, `break`, `continue`.
  Source side: `Sem/Src32` (the reference semantics the property names: 32-bit integers, cmd-neutral alphabet).  Target side:
  `Sem/Cmd` (run-time `!name!` expansion, 32-bit `set /A` on canonical decimal operands, numeric versus quoted-string `IF`, the echo
  routine, `goto :end` with the exit code in `_e`) and `Sem/CmdTree` (what the labels, `goto`s and parenthesised blocks of an
  if-chain or a loop amount to).  All programs of the fragment, every nesting, every number of statements and loop rounds.
  NOT proved: functions, slices, string operations (the fragments of C02 / C03 on this target), `switch` / `range` (known
  findings); that cmd.exe reads the rendered text as the structured lines, and runs the line list as the block tree says - the
  line-level machine `Sem/Cmd.runPC`, lib/cmdsim.py on the text, the tree via `treeOf` and the 32-bit reference are compared on
  every scalar program of every run (lib/props/c05.py).
-/
import TshVerif.Lemmas.SemBStraight
import TshVerif.Lemmas.SemBCtl
import TshVerif.Lemmas.SemBLoop
import TshVerif.Lemmas.SemBDet
import TshVerif.Lemmas.SemBLabels
import TshVerif.Lemmas.SemBLinesComplete
import TshVerif.Lemmas.SemBPre

namespace Tsh.C05S
open Tsh Tsh.Tr Tsh.Batch Tsh.Sem Tsh.SemB

/-- what the start code of every script leaves behind: no variable but the exit code `_e`, which is 0 -/
def startStore : Store := Store.set (fun _ => "") "_e" "0"

/-- **The Batch script means what the program means (straight-line programs).**  For every program `p` made of
    definitions and assignments (of one variable or simultaneous, through the temporaries `_ma<i>`), `print` and a final `panic`: the emitted script is the start code,
    the helper routines, the lines `code` of the program and the two end lines (no function block), and whenever the
    32-bit source semantics runs `p` to an outcome `o` (end of program, or exit 1 after `panic`) with printed lines `out`,
    the cmd model runs `code` from the store the start code leaves to the same outcome with the same printed lines; at
    a normal end the exit code variable still holds 0.  No bound on the number of statements or on the size of the
    expressions.  `_partial`: the property also covers control flow, functions, slices and string operations. -/
theorem batch_preserves_straight_line_semantics_partial (p : Program) (hs : straight p = true) (ls : List BLine)
    (hc : compile p = .ok ls) :
    ∃ (st : St),
      ls = st.startCode.reverse ++ helperLines st ++ (st.functionsCode.map List.reverse).flatten ++ st.globalCode.reverse ++
             [.label "end", .raw "endlocal & exit /B %_e%"] ∧
      ∀ fuel o out, Src32.runProgram fuel p = some (o, out) →
        st.functionsCode = [] ∧
        ∃ c' : Cfg, runLinesB st.globalCode.reverse ⟨startStore, []⟩ = some (o, c') ∧ c'.out = out ∧
          (o = .normal → c'.ρ "_e" = "0") := by
  unfold compile at hc
  split at hc
  · rename_i u s hrun
    simp only [Res.ok.injEq] at hc
    unfold evalProgram at hrun
    obtain ⟨_, s1, h1, hrun⟩ := bindB_ok hrun
    obtain ⟨_, s2, h2, h3⟩ := bindB_ok hrun
    have e3 : s = s2 := by
      have : (pure () : BM Unit) s2 = .ok (u, s) := h3
      exact (pureB_ok this).2
    have hs1 : s1.funcs = [] ∧ s1.globalCode = [] ∧ s1.functionsCode = [] := by
      have : programStart ({} : St) = .ok ((), s1) := h1
      simp [programStart, addStartLine, Tr.modify, bind] at this
      rw [← this]; exact ⟨rfl, rfl, rfl⟩
    refine ⟨s, ?_, ?_⟩
    · rw [← hc]; rfl
    · intro fuel o out hr
      unfold Src32.runProgram at hr
      split at hr
      · rename_i o' c' hr'
        simp only [Option.some.injEq, Prod.mk.injEq] at hr
        obtain ⟨rfl, rfl⟩ := hr
        obtain ⟨new, n, ad, sem⟩ := stmtsB_sem p hs s1 s2 hs1.1 h2 fuel Src.SCfg.init o' c' hr'
        obtain ⟨ρ', run, post⟩ := sem startStore (by intro x v hx; simp [Src.SCfg.init] at hx)
        refine ⟨by rw [e3, ad.fcode]; exact hs1.2.2, ⟨ρ', c'.out⟩, ?_, rfl, fun ho => ?_⟩
        · rw [e3, ad.code, hs1.2.1, List.append_nil]
          exact run
        · show ρ' "_e" = "0"
          rw [(post ho).2.1]; exact set_same _ _ _
      · simp at hr
  · simp at hc
  · simp at hc

/-! non-vacuity: a concrete program of the fragment compiles, runs in the source semantics, and the lines of its script run
    in the cmd model to the same two printed lines and exit code 1 -/
private def x : Var := { name := "x", vt := ⟨.int, false⟩, global := true, pub := false }
private def sample : Program :=
  [ .varDef [x] [.binary "*" (.intLit 6) (.intLit 7)],
    .print [.varEval x, .compare "<" (.varEval x) (.intLit 50), .strLit "a b"],
    .panic (.binary "+" (.strLit "x is ") (.itoa (.varEval x))) ]

example : straight sample = true := by decide
#guard Src32.runProgram 10 sample == some (.exit 1, ["42 1 a b", "panic: x is 42"])
#guard (match compile sample with
  | .ok ls => SemB.run 1000 ls == some (.exit 1, ["42 1 a b", "panic: x is 42"])
  | _ => false)

/-! ### conditionals: the script as a block tree -/

/-- **The Batch script means what the program means (programs with conditionals).**  For every program `p` of the scalar
    fragment without loops - definitions, assignments (single or simultaneous), print, panic anywhere, if / else-if / else
    chains nested to any depth: the emitted script is the start code, the helper routines, NO function block, the lines of a
    block tree `cmds` (`Sem/CmdTree`: if-chains with their end labels `_i<k>`, `goto` to that label at the end of every
    branch, `) else if` / `) else` blocks) and the two end lines; and whenever the 32-bit source semantics runs `p` to an
    outcome `o` with printed lines `out`, the tree runs under the structured reading of cmd.exe's rules (`ExecBs`) from the
    store the start code leaves to the same outcome with the same printed lines; at a normal end the exit code variable still
    holds 0.  All else-if conditions are evaluated before the first test, as the project states.  `_partial`: loops,
    break / continue, functions, slices and string operations are not covered. -/
theorem batch_preserves_conditional_semantics_partial (p : Program) (hf : Src.fragStmts p = true) (hn : noLoopStmts p = true)
    (ls : List BLine) (hc : compile p = .ok ls) :
    ∃ (st : St) (cmds : List BCmd),
      ls = st.startCode.reverse ++ helperLines st ++ flats none cmds ++ [.label "end", .raw "endlocal & exit /B %_e%"] ∧
      ∀ fuel o out, Src32.runProgram fuel p = some (o, out) →
        ∃ c' : Cfg, ExecBs cmds ⟨startStore, []⟩ o c' ∧ c'.out = out ∧ (o = .normal → c'.ρ "_e" = "0") := by
  unfold compile at hc
  split at hc
  · rename_i u s hrun
    simp only [Res.ok.injEq] at hc
    unfold evalProgram at hrun
    obtain ⟨_, s1, h1, hrun⟩ := bindB_ok hrun
    obtain ⟨_, s2, h2, h3⟩ := bindB_ok hrun
    have e3 : s = s2 := by
      have : (pure () : BM Unit) s2 = .ok (u, s) := h3
      exact (pureB_ok this).2
    have hs1 : s1.funcs = [] ∧ s1.globalCode = [] ∧ s1.functionsCode = [] := by
      have : programStart ({} : St) = .ok ((), s1) := h1
      simp [programStart, addStartLine, Tr.modify, bind] at this
      rw [← this]; exact ⟨rfl, rfl, rfl⟩
    obtain ⟨cmds, n, ad, _, sim⟩ := stmtsT_sem none p hf hn s1 s2 hs1.1 h2
    refine ⟨s, cmds, ?_, ?_⟩
    · rw [← hc, e3]
      have hcode : s2.globalCode.reverse = flats none cmds := by
        rw [ad.code, hs1.2.1, List.append_nil, List.reverse_reverse]
      have hfc : s2.functionsCode = [] := by rw [ad.fcode]; exact hs1.2.2
      simp [dumpLines, hcode, hfc]
    · intro fuel o out hr
      unfold Src32.runProgram at hr
      split at hr
      · rename_i o' c' hr'
        simp only [Option.some.injEq, Prod.mk.injEq] at hr
        obtain ⟨rfl, rfl⟩ := hr
        obtain ⟨ρ', ex, post⟩ := sim fuel Src.SCfg.init o' c' hr' startStore (by intro x v hx; simp [Src.SCfg.init] at hx)
        refine ⟨⟨ρ', c'.out⟩, ex, rfl, fun ho => ?_⟩
        show ρ' "_e" = "0"
        rw [(post (by intro k; rw [ho]; simp)).2.1]; exact set_same _ _ _
      · simp at hr
  · simp at hc
  · simp at hc

/-! ### the whole scalar fragment: loops, break, continue -/

/-- the common core of the theorems below: the tree, that it is well-formed (its simple lines are not structural), that every
    construct label of the script leads to the lines behind its definition, and what the tree does -/
theorem scalar_core (p : Program) (hf : Src.fragStmts p = true) (hn : simpleLoopsStmts p = true)
    (ls : List BLine) (hc : compile p = .ok ls) :
    ∃ (st : St) (cmds : List BCmd),
      ls = st.startCode.reverse ++ helperLines st ++ flats none cmds ++ [.label "end", .raw "endlocal & exit /B %_e%"] ∧
      wfBs cmds = true ∧ Resolves ls ∧
      (∃ extra, st.startCode.reverse = baseStart ++ extra ∧ ∀ l ∈ extra, lfLine l = true) ∧
      helperLines st = (if st.echReq then echoHelper else []) ∧
      ∀ fuel o out, Src32.runProgram fuel p = some (o, out) →
        ∃ c' : Cfg, ExecBs cmds ⟨startStore, []⟩ o c' ∧ c'.out = out ∧ (o = .normal → c'.ρ "_e" = "0") := by
  unfold compile at hc
  split at hc
  · rename_i u s hrun
    simp only [Res.ok.injEq] at hc
    have hrun0 := hrun
    unfold evalProgram at hrun
    obtain ⟨_, s1, h1, hrun⟩ := bindB_ok hrun
    obtain ⟨_, s2, h2, h3⟩ := bindB_ok hrun
    have e3 : s = s2 := by
      have : (pure () : BM Unit) s2 = .ok (u, s) := h3
      exact (pureB_ok this).2
    have hs1 : s1.funcs = [] ∧ s1.globalCode = [] ∧ s1.functionsCode = [] ∧ s1.fors = [] ∧ s1.endLabels = [] := by
      have : programStart ({} : St) = .ok ((), s1) := h1
      simp [programStart, addStartLine, Tr.modify, bind] at this
      rw [← this]; exact ⟨rfl, rfl, rfl, rfl, rfl⟩
    obtain ⟨cmds, n, ad, wf, sim⟩ := stmtsL_sem none p hf hn s1 s2 hs1.1 ⟨hs1.2.2.2.1, hs1.2.2.2.2⟩ h2
    have hcode : s2.globalCode.reverse = flats none cmds := by
      rw [ad.code, hs1.2.1, List.append_nil, List.reverse_reverse]
    have hfc : s2.functionsCode = [] := by rw [ad.fcode]; exact hs1.2.2.1
    have hshape : dumpLines s2 = s2.startCode.reverse ++ helperLines s2 ++ flats none cmds ++ [.label "end", .raw "endlocal & exit /B %_e%"] := by
      simp [dumpLines, hcode, hfc]
    have hres : Resolves (dumpLines s2) := by
      have hi : LInv s2 := by rw [← e3]; exact program_linv p u s hrun0
      have hifs : s2.ifs = [] := by
        rw [ad.ifs]
        have : programStart ({} : St) = .ok ((), s1) := h1
        simp [programStart, addStartLine, Tr.modify, bind] at this
        rw [← this]
      have hends : s2.endLabels = [] := by rw [ad.ends]; exact hs1.2.2.2.2
      have hnd : (clabels s2).Nodup := by
        have := hi.nd
        rw [hifs, hends] at this
        simpa using this
      refine resolves_of_clabels _ ((dump_clabels s2 hi.startPlain).nodup_iff.mpr hnd) ?_
      intro l hl hp
      have hb : third l = true := third_of_bounded (hi.bd l (Or.inl ((dump_clabels s2 hi.startPlain).mem_iff.mp hl)))
      rw [hshape] at hp
      simp only [List.filterMap_append, List.mem_append] at hp
      have hfalse : third l = false := by
        rcases hp with ((hp | hp) | hp) | hp
        · rw [plab_startLines (fun x hx => hi.startRaw x (List.mem_reverse.mp hx))] at hp
          simp at hp
        · exact plab_ok (helperLines_ok s2) l hp
        · rw [plab_flats_nil none cmds wf] at hp
          simp at hp
        · simp [plab] at hp
          subst hp
          simp [third]
      rw [hb] at hfalse
      simp at hfalse
    have hstart : ∃ extra, s2.startCode.reverse = baseStart ++ extra ∧ ∀ l ∈ extra, lfLine l = true := by
      obtain ⟨_, extra, hse, hpe⟩ := ad.env
      have hs1c : s1.startCode = [.set "_e" "0", .raw "setlocal", .raw "setlocal EnableDelayedExpansion", .raw "@echo off"] := by
        have : programStart ({} : St) = .ok ((), s1) := h1
        simp [programStart, addStartLine, Tr.modify, bind] at this
        rw [← this]
      refine ⟨extra.reverse, by rw [hse, hs1c]; simp [baseStart], fun l hl => hpe l (List.mem_reverse.mp hl)⟩
    have hhelp : helperLines s2 = (if s2.echReq then echoHelper else []) := by
      obtain ⟨⟨f1, f2, f3, f4, f5, f6, f7, f8, f9⟩, _⟩ := ad.env
      have hs1f : s1.fwhReq = false ∧ s1.appCallReq = false ∧ s1.readReq = false ∧ s1.schReq = false ∧ s1.sahReq = false ∧
          s1.slsReq = false ∧ s1.slgReq = false ∧ s1.stshReq = false ∧ s1.stlhReq = false := by
        have : programStart ({} : St) = .ok ((), s1) := h1
        simp [programStart, addStartLine, Tr.modify, bind] at this
        rw [← this]; exact ⟨rfl, rfl, rfl, rfl, rfl, rfl, rfl, rfl, rfl⟩
      obtain ⟨g1, g2, g3, g4, g5, g6, g7, g8, g9⟩ := hs1f
      simp [helperLines, f1, f2, f3, f4, f5, f6, f7, f8, f9, g1, g2, g3, g4, g5, g6, g7, g8, g9, echoHelper]
    refine ⟨s, cmds, ?_, wf, by rw [← hc, e3]; exact hres, by rw [e3]; exact hstart, by rw [e3]; exact hhelp, ?_⟩
    · rw [← hc, e3]; exact hshape
    · intro fuel o out hr
      unfold Src32.runProgram at hr
      split at hr
      · rename_i o' c' hr'
        simp only [Option.some.injEq, Prod.mk.injEq] at hr
        obtain ⟨rfl, rfl⟩ := hr
        obtain ⟨ρ', ex, post⟩ := sim fuel Src.SCfg.init o' c' hr' startStore (by intro x v hx; simp [Src.SCfg.init] at hx)
        refine ⟨⟨ρ', c'.out⟩, ex, rfl, fun ho => ?_⟩
        show ρ' "_e" = "0"
        rw [(post (by intro k; rw [ho]; simp)).2.1]; exact set_same _ _ _
      · simp at hr
  · simp at hc
  · simp at hc

/-- **The Batch script means what the program means (scalar fragment).**  For every program `p` of the scalar fragment -
    integer / boolean / string expressions, definitions and assignments (single or simultaneous), print, panic,
    if / else-if / else chains, `for` loops with init / condition / increment, `break`, `continue`, nested to any depth
    (`simpleLoopsStmts`: the increment of a loop is a definition or an assignment, as the grammar has it):
    the emitted script is the start code, the helper routines, NO function block, the lines of a block tree `cmds` and the
    two end lines.  The tree (`Sem/CmdTree`) has if-chains with their end label `_i<k>`, loops number `n` with head label
    `_f<n>`, end label `_e<n>` and first-round flag `_fv<n>` tested by `if defined`, and `break` / `continue` as `goto` to
    the labels of the INNERMOST enclosing loop (by construction of `flats`).  Whenever the 32-bit source semantics runs `p`
    to an outcome `o` with printed lines `out` - whatever the number of rounds of any loop - the tree runs under the
    structured reading of cmd.exe's rules (`ExecBs`) from the store the start code leaves to the same outcome with the
    same printed lines; at a normal end the exit code variable still holds 0.
    The counterpart of `C01.bash_preserves_scalar_semantics` for the other target.  Not covered: functions, slices,
    string operations (C02 / C03 fragments), `switch` and `range` (known findings). -/
theorem batch_preserves_scalar_semantics (p : Program) (hf : Src.fragStmts p = true) (hn : simpleLoopsStmts p = true)
    (ls : List BLine) (hc : compile p = .ok ls) :
    ∃ (st : St) (cmds : List BCmd),
      ls = st.startCode.reverse ++ helperLines st ++ flats none cmds ++ [.label "end", .raw "endlocal & exit /B %_e%"] ∧
      ∀ fuel o out, Src32.runProgram fuel p = some (o, out) →
        ∃ c' : Cfg, ExecBs cmds ⟨startStore, []⟩ o c' ∧ c'.out = out ∧ (o = .normal → c'.ρ "_e" = "0") := by
  obtain ⟨st, cmds, e, _, _, _, _, sem⟩ := scalar_core p hf hn ls hc
  exact ⟨st, cmds, e, sem⟩

/-- **The outcome is unique, and it is the one the executable tree interpreter computes.**  The relation `ExecBs` is
    deterministic and the interpreter `execBs` - the function that is run on the tree rebuilt from every script, next to the
    line-level machine and lib/cmdsim.py, in every check - is sound for it: so for a program of the scalar fragment, whenever
    the source semantics and the interpreter both finish, they give the same outcome and the same printed lines. -/
theorem batch_tree_outcome_unique (p : Program) (hf : Src.fragStmts p = true) (hn : simpleLoopsStmts p = true)
    (ls : List BLine) (hc : compile p = .ok ls) :
    ∃ (st : St) (cmds : List BCmd),
      ls = st.startCode.reverse ++ helperLines st ++ flats none cmds ++ [.label "end", .raw "endlocal & exit /B %_e%"] ∧
      ∀ f1 f2 o1 out1 o2 c2, Src32.runProgram f1 p = some (o1, out1) → execBs f2 cmds ⟨startStore, []⟩ = some (o2, c2) →
        o1 = o2 ∧ out1 = c2.out := by
  obtain ⟨st, cmds, e, sem⟩ := batch_preserves_scalar_semantics p hf hn ls hc
  refine ⟨st, cmds, e, ?_⟩
  intro f1 f2 o1 out1 o2 c2 hs hx
  obtain ⟨c', ex, eo, _⟩ := sem f1 o1 out1 hs
  obtain ⟨h1, h2⟩ := execBs_det ex (execBs_sound f2 cmds _ o2 c2 hx)
  exact ⟨h1, by rw [← eo, h2]⟩

/-- **The LINES of the script do what the program does** - no block tree in the statement.  `LRun ls rest c o c'`
    (`Sem/CmdLines`) is the meaning of a script as a list of lines: a simple line runs and the next line follows; a label is
    a no-op; `goto :L` continues behind the first definition of `L` in the whole script `ls`; `if <cond> (` with a false
    condition skips to the matching `)`, `) else (` or `) else if … (`, counting nested brackets; the last line ends the script
    with the code in `_e`.  For every program of the scalar fragment the script is `pre ++ main ++` the two end lines, where
    `pre` is the start code and the helper routines, and whenever the 32-bit source semantics runs the program to a normal end
    (or to a panic), the lines `main ++ end` run, from the store the start code leaves, to exit code 0 (or 1) with the same
    printed lines - whatever the nesting of if-chains and loops, the number of rounds, `break` and `continue`.
    The block tree of `batch_preserves_scalar_semantics` is only the proof's way to get there (`SemB.sound_Bs`: the tree is
    a sound reading of the lines, given that construct labels resolve - which is proved here from the label invariant
    behind `C16.batch_construct_labels_unique` and the shapes of all other labels).
    Still outside: that the start code leaves `startStore` and jumps over the helper routines (`pre` is not run by `LRun`),
    and that cmd.exe reads the rendered text as these lines. -/
theorem batch_script_lines_preserve_scalar_semantics (p : Program) (hf : Src.fragStmts p = true) (hn : simpleLoopsStmts p = true)
    (ls : List BLine) (hc : compile p = .ok ls) :
    ∃ (pre main : List BLine),
      ls = pre ++ (main ++ [.label "end", .raw "endlocal & exit /B %_e%"]) ∧
      ∀ fuel o out, Src32.runProgram fuel p = some (o, out) →
        ∃ c' : Cfg, c'.out = out ∧
          (o = .normal → LRun ls (main ++ [.label "end", .raw "endlocal & exit /B %_e%"]) ⟨startStore, []⟩ (.exit 0) c') ∧
          (∀ k, o = .exit k → LRun ls (main ++ [.label "end", .raw "endlocal & exit /B %_e%"]) ⟨startStore, []⟩ (.exit k) c') := by
  obtain ⟨st, cmds, e, wf, hres, _, _, sem⟩ := scalar_core p hf hn ls hc
  refine ⟨st.startCode.reverse ++ helperLines st, flats none cmds, by rw [e]; simp, ?_⟩
  intro fuel o out hr
  obtain ⟨c', ex, eo, he⟩ := sem fuel o out hr
  have hp : ls = (st.startCode.reverse ++ helperLines st) ++ (flats none cmds ++ [.label "end", .raw "endlocal & exit /B %_e%"]) := by
    rw [e]; simp
  have snd := sound_Bs hres ex wf none _ _ hp
  refine ⟨c', eo, ?_, ?_⟩
  · intro ho
    subst ho
    have h0 : asCode (c'.ρ "_e") = some 0 := by
      rw [he rfl]
      show asCode (Nat.repr 0) = some 0
      simp [asCode]
    exact snd _ _ (.plabel (.finish h0))
  · intro k ho
    subst ho
    exact snd

/-- **The WHOLE script, from its first line and the empty store, does what the program does.**  For every program of the
    scalar fragment: whenever the 32-bit source semantics runs the program to a normal end (or to a panic) with printed lines
    `out`, the emitted script `ls` - all of it: `@echo off`, the two `setlocal`, `set "_e=0"`, the definition of `LF` where a
    string literal asked for it, the jump over the echo routine, the lines of the program, `:end` and
    `endlocal & exit /B %_e%` - runs under the line-level semantics `Sem/CmdLines.LRun` from its FIRST line and the EMPTY
    store to exit code 0 (or 1) with the same printed lines.  No block tree, no start store and no position inside the script
    in the statement; the only definitions it speaks about are `compile`, `Src32.runProgram` and `LRun` (which is exactly what
    the interpreter `lrun` computes, `line_semantics_is_what_lrun_computes`, and what every run compares with lib/cmdsim.py on
    the rendered text).  Needs, beyond `batch_script_lines_preserve_scalar_semantics`: no helper routine but the echo routine
    is requested and the start code only grows by the `LF` definition (threaded through the simulation, `EnvExt`), and the
    run through the lines in front of the program (`Lemmas/SemBPre.pre_leads`).
    Still outside: that cmd.exe reads the rendered text as these lines; the value of `LF` (the strings of the fragment contain
    no line break). -/
theorem batch_whole_script_preserves_scalar_semantics (p : Program) (hf : Src.fragStmts p = true) (hn : simpleLoopsStmts p = true)
    (ls : List BLine) (hc : compile p = .ok ls) :
    ∀ fuel o out, Src32.runProgram fuel p = some (o, out) →
      ∃ c' : Cfg, c'.out = out ∧
        (o = .normal → LRun ls ls ⟨fun _ => "", []⟩ (.exit 0) c') ∧
        (∀ k, o = .exit k → LRun ls ls ⟨fun _ => "", []⟩ (.exit k) c') := by
  obtain ⟨st, cmds, e, wf, hres, ⟨extra, hst, hex⟩, hh, sem⟩ := scalar_core p hf hn ls hc
  intro fuel o out hr
  obtain ⟨c', ex, eo, he⟩ := sem fuel o out hr
  have hp : ls = (st.startCode.reverse ++ helperLines st) ++ (flats none cmds ++ [.label "end", .raw "endlocal & exit /B %_e%"]) := by
    rw [e]; simp
  have snd := sound_Bs hres ex wf none _ _ hp
  have hw : ls = baseStart ++ (extra ++ ((if st.echReq then echoHelper else []) ++
      (flats none cmds ++ [.label "end", .raw "endlocal & exit /B %_e%"]))) := by
    rw [hp, hst, hh]; simp
  have pre := pre_leads ls extra (flats none cmds ++ [.label "end", .raw "endlocal & exit /B %_e%"]) hex st.echReq hw
  rw [← hw] at pre
  refine ⟨c', eo, ?_, ?_⟩
  · intro ho
    subst ho
    have h0 : asCode (c'.ρ "_e") = some 0 := by
      rw [he rfl]
      show asCode (Nat.repr 0) = some 0
      simp [asCode]
    exact pre _ _ (snd _ _ (.plabel (.finish h0)))
  · intro k ho
    subst ho
    exact pre _ _ snd

/-- **What the driver computes on the whole script is the program's result.**  `SemB.runLines fuel ls = lrun ls fuel ls ⟨empty⟩`
    is the function the check runs on every script of the fragment and compares with lib/cmdsim.py: whenever the source
    semantics ends normally or with a panic and `lrun` finishes on the whole script from the empty store, it reports the exit
    code of the program (0 for a normal end) and the same printed lines. -/
theorem batch_whole_script_outcome_unique (p : Program) (hf : Src.fragStmts p = true) (hn : simpleLoopsStmts p = true)
    (ls : List BLine) (hc : compile p = .ok ls) :
    ∀ f1 f2 o1 out1 o2 c2, Src32.runProgram f1 p = some (o1, out1) → lrun ls f2 ls ⟨fun _ => "", []⟩ = some (o2, c2) →
      (o1 = .normal → o2 = .exit 0 ∧ out1 = c2.out) ∧ (∀ k, o1 = .exit k → o2 = .exit k ∧ out1 = c2.out) := by
  intro f1 f2 o1 out1 o2 c2 hs hx
  obtain ⟨c', eo, hnorm, hexit⟩ := batch_whole_script_preserves_scalar_semantics p hf hn ls hc f1 o1 out1 hs
  have hl := lrun_sound ls f2 _ _ o2 c2 hx
  refine ⟨fun ho => ?_, fun k ho => ?_⟩
  · obtain ⟨h1, h2⟩ := LRun.det (hnorm ho) hl
    exact ⟨h1.symm, by rw [← eo, h2]⟩
  · obtain ⟨h1, h2⟩ := LRun.det (hexit k ho) hl
    exact ⟨h1.symm, by rw [← eo, h2]⟩

/-- **At the line level the outcome is unique, and it is the one the executable line interpreter computes.**  `LRun` is
    deterministic (`LRun.det`) and the interpreter `lrun` - run on every script of the fragment in every check, next to the
    program-counter machine, the tree interpreter and lib/cmdsim.py - is sound for it (`lrun_sound`): whenever the source
    semantics ends normally or with a panic and `lrun` finishes on the script's lines, `lrun` reports the exit code the
    program has (0 for a normal end) and the same printed lines. -/
theorem batch_lines_outcome_unique (p : Program) (hf : Src.fragStmts p = true) (hn : simpleLoopsStmts p = true)
    (ls : List BLine) (hc : compile p = .ok ls) :
    ∃ (pre main : List BLine),
      ls = pre ++ (main ++ [.label "end", .raw "endlocal & exit /B %_e%"]) ∧
      ∀ f1 f2 o1 out1 o2 c2, Src32.runProgram f1 p = some (o1, out1) →
        lrun ls f2 (main ++ [.label "end", .raw "endlocal & exit /B %_e%"]) ⟨startStore, []⟩ = some (o2, c2) →
        (o1 = .normal → o2 = .exit 0 ∧ out1 = c2.out) ∧ (∀ k, o1 = .exit k → o2 = .exit k ∧ out1 = c2.out) := by
  obtain ⟨pre, main, e, sem⟩ := batch_script_lines_preserve_scalar_semantics p hf hn ls hc
  refine ⟨pre, main, e, ?_⟩
  intro f1 f2 o1 out1 o2 c2 hs hx
  obtain ⟨c', eo, hnorm, hexit⟩ := sem f1 o1 out1 hs
  have hl := lrun_sound ls f2 _ _ o2 c2 hx
  refine ⟨fun ho => ?_, fun k ho => ?_⟩
  · obtain ⟨h1, h2⟩ := LRun.det (hnorm ho) hl
    exact ⟨h1.symm, by rw [← eo, h2]⟩
  · obtain ⟨h1, h2⟩ := LRun.det (hexit k ho) hl
    exact ⟨h1.symm, by rw [← eo, h2]⟩

/-- **The line-level semantics is exactly what the line interpreter computes.**  `LRun ls rest c o c'` holds if and only if
    `lrun ls fuel rest c` answers `(o, c')` for some amount of fuel (soundness `lrun_sound`, completeness `lrun_complete`,
    fuel monotone `lrun_mono`).  The relation of `batch_script_lines_preserve_scalar_semantics` is therefore not an extra
    trusted definition next to the executable one that the checks compare with lib/cmdsim.py: they are the same thing. -/
theorem line_semantics_is_what_lrun_computes (whole rest : List BLine) (c : Cfg) (o : Out) (c' : Cfg) :
    LRun whole rest c o c' ↔ ∃ fuel, lrun whole fuel rest c = some (o, c') :=
  ⟨lrun_complete, fun ⟨f, h⟩ => lrun_sound whole f rest c o c' h⟩

/-! non-vacuity: a program with a nested loop, `break`, `continue`, an if / else-if / else chain and a panic is in the fragment, runs in
    the source semantics, and its script runs in the line-level machine of `Sem/Cmd` to the same printed lines and exit code -/
private def iv : Var := { name := "i", vt := ⟨.int, false⟩, global := true, pub := false }
private def jv : Var := { name := "j", vt := ⟨.int, false⟩, global := true, pub := false }
private def loopSample : Program :=
  [ .forS (some (.varDef [iv] [.intLit 0])) (.compare "<" (.varEval iv) (.intLit 4)) (some (.assign [iv] [.binary "+" (.varEval iv) (.intLit 1)]))
      [ .ifS (.compare "==" (.varEval iv) (.intLit 1)) [.cont] [(.compare "==" (.varEval iv) (.intLit 3), [.brk])] [.print [.varEval iv]],
        .forS (some (.varDef [jv] [.intLit 0])) (.boolLit true) (some (.assign [jv] [.binary "+" (.varEval jv) (.intLit 1)]))
          [ .ifS (.compare ">" (.varEval jv) (.varEval iv)) [.brk] [] [],
            .print [.strLit "j", .varEval jv] ] ],
    .panic (.strLit "stop") ]

example : Src.fragStmts loopSample = true ∧ simpleLoopsStmts loopSample = true := by decide
#guard Src32.runProgram 100 loopSample == some (.exit 1, ["0", "j 0", "2", "j 0", "j 1", "j 2", "panic: stop"])
#guard (match compile loopSample with
  | .ok ls => SemB.run 10000 ls == some (.exit 1, ["0", "j 0", "2", "j 0", "j 1", "j 2", "panic: stop"])
  | _ => false)
#guard (match compile loopSample with
  | .ok ls => SemB.runTree 10000 ls == some (.exit 1, ["0", "j 0", "2", "j 0", "j 1", "j 2", "panic: stop"])
  | _ => false)
#guard (match compile loopSample with
  | .ok ls => SemB.runLines 10000 ls == some (.exit 1, ["0", "j 0", "2", "j 0", "j 1", "j 2", "panic: stop"])
  | _ => false)

end Tsh.C05S
