import TshVerif.Model.Parser
namespace Tsh.C07
open Tsh Tsh.Parser

end Tsh.C07
