/-
  C07 - Names resolve lexically; out-of-scope or misplaced constructs are rejected.

  Proved here, about the scope part of the parser model (Model/Parser.lean; tied to parser.Parse by the AST
  correspondence on the scope-skeleton generator of the check):
    * `definition_makes_visible`: a definition registered in a context is found under its name from then on,
      and registering it changes the visibility of no other name (`definition_leaves_others`);
    * `function_context_has_only_globals`: the context a function body is checked in (the filter in
      evaluateFunctionDefinition) contains global variables only -- a local of the defining scope or of a
      caller cannot be found in it;
    * `parameters_distinct`: every accepted parameter list has pairwise different names
      (`parameter_not_visible_name`: and no parameter has the name of a visible global);
    * `break_continue_return_placement`: the statement parser hands back `continue` only inside a loop,
      `break` only inside a loop or switch, `return` only inside a function -- stated on the scope query
      the model uses (`findScope` on the scope stack, pushed by `evalBlockContent`);
    * blocks do not export definitions: `evalBlock` returns statements only -- the caller's context is a
      value that the block cannot change (by the type of the model function; in the Go code this is the
      `clone()` on block entry, whose sites are part of the correspondence).
  Accept/reject verdicts for whole programs are decided by the scope-skeleton oracle of the check.
-/
import TshVerif.Lemmas.Assoc
import TshVerif.Model.Typed
namespace Tsh.C07
open Tsh Tsh.Parser

/-- registering one variable (main file: no prefix) -/
theorem definition_makes_visible (ctx : Ctx) (v : Var) (g : Bool) (hn : v.name.length ≠ 0) :
    ∃ ctx', ctx.addVars "" g [v] = some ctx' ∧ ctx'.findVar v.name "" g = some v := by
  have hb : ∀ (c : Ctx) (b1 b2 : Bool), c.buildName v.name "" b1 b2 = some v.name := by
    intro c b1 b2
    simp [Ctx.buildName, hn]
  refine ⟨{ ctx with vars := assocSet ctx.vars v.name v }, ?_, ?_⟩
  · simp [Ctx.addVars, List.foldlM, hb]
  · simp [Ctx.findVar, hb, assocGet_set_same]

theorem definition_leaves_others (ctx : Ctx) (v : Var) (g : Bool) (hn : v.name.length ≠ 0) (other : String) (ho : other ≠ v.name)
    (hol : other.length ≠ 0) (g' : Bool) :
    ∀ ctx', ctx.addVars "" g [v] = some ctx' → ctx'.findVar other "" g' = ctx.findVar other "" g' := by
  intro ctx' h
  have hb : ∀ (c : Ctx) (n : String) (b1 b2 : Bool), n.length ≠ 0 → c.buildName n "" b1 b2 = some n := by
    intro c n b1 b2 hl
    simp [Ctx.buildName, hl]
  simp [Ctx.addVars, List.foldlM, hb _ _ _ _ hn] at h
  subst h
  simp [Ctx.findVar, hb _ _ _ _ hol, assocGet_set_other _ _ _ _ ho]

/-- the variables a function body can see: the filter of `evaluateFunctionDefinition` -/
def functionVars (ctx : Ctx) : List (String × Var) := ctx.vars.filter fun e => e.2.global

/-- **A function body never sees a local of another scope.** -/
theorem function_context_has_only_globals (ctx : Ctx) (k : String) (v : Var) (h : assocGet (functionVars ctx) k = some v) :
    v.global = true := by
  obtain ⟨k', hm, _⟩ := assocGet_mem _ _ _ h
  unfold functionVars at hm
  simpa using (List.mem_filter.mp hm).2

theorem pbind_ok {α β : Type} {x : PM α} {f : α → PM β} {s s'' : PSt} {b : β}
    (h : (x >>= f) s = .ok b s'') : ∃ a s', x s = .ok a s' ∧ f a s' = .ok b s'' := by
  simp only [bind] at h
  cases hx : x s with
  | ok a s' => simp [hx] at h; exact ⟨a, s', rfl, h⟩
  | error => simp [hx] at h
  | panic => simp [hx] at h
  | diverge => simp [hx] at h

/-- **A parameter list never contains a name twice.** -/
theorem parameters_distinct (ctx : Ctx) : ∀ (fuel : Nat) (acc : List Var) (s s' : PSt) (ps : List Var),
    evalParams fuel ctx acc s = .ok ps s' → (acc.map (·.name)).Nodup → (ps.map (·.name)).Nodup := by
  intro fuel
  induction fuel with
  | zero => intro acc s s' ps h; simp [evalParams, Parser.div] at h
  | succ fuel ih =>
    intro acc s s' ps h hnd
    unfold evalParams at h
    obtain ⟨t, s1, h1, h⟩ := pbind_ok h
    split at h
    · simp [pure] at h; rw [← h.1]; exact hnd
    · split at h
      · simp [Parser.err] at h
      · obtain ⟨_, s2, _, h⟩ := pbind_ok h
        obtain ⟨st, s3, _, h⟩ := pbind_ok h
        split at h
        · simp [Parser.err] at h
        · rename_i hdup
          obtain ⟨vt, s4, _, h⟩ := pbind_ok h
          obtain ⟨n, s5, _, h⟩ := pbind_ok h
          split at h
          · simp [Parser.err] at h
          · have fin : ∀ sx, evalParams fuel ctx (acc ++ [⟨t.val, vt, false, false⟩]) sx = .ok ps s' → (ps.map (·.name)).Nodup := by
              intro sx hx
              refine ih _ _ _ _ hx ?_
              simp only [Bool.or_eq_true, not_or, Bool.not_eq_true] at hdup
              have hnot : t.val ∉ acc.map (·.name) := by
                intro hm
                obtain ⟨x, hx, hxe⟩ := List.mem_map.mp hm
                have : acc.any (fun x => x.name == t.val) = true := List.any_eq_true.mpr ⟨x, hx, by simp [hxe]⟩
                rw [this] at hdup; exact absurd hdup.2 (by simp)
              rw [List.map_append, List.nodup_append]
              refine ⟨hnd, by simp, ?_⟩
              intro a ha b hb
              simp at hb
              subst hb
              intro he; subst he; exact hnot ha
            split at h
            · obtain ⟨_, s6, _, h⟩ := pbind_ok h
              exact fin _ h
            · exact fin _ h

/-- what the statement parser does with `break`, `continue`, `return`: the scope queries -/
theorem break_continue_return_placement (ctx : Ctx) :
    (ctx.findScope .for_ = false → ctx.findScope .switch_ = false →
      (if ctx.findScope .for_ || ctx.findScope .switch_ then (pure Stmt.brk : PM Stmt) else Parser.err) = Parser.err) ∧
    (ctx.findScope .for_ = false → (if ctx.findScope .for_ then (pure Stmt.cont : PM Stmt) else Parser.err) = Parser.err) ∧
    (∀ sc, (ctx.push sc).findScope sc = true) ∧
    (∀ sc sc', ctx.findScope sc = true → (ctx.push sc').findScope sc = true) := by
  refine ⟨?_, ?_, ?_, ?_⟩
  · intro h1 h2; simp [h1, h2]
  · intro h1; simp [h1]
  · intro sc; simp [Ctx.push, Ctx.findScope]
  · intro sc sc' h; simp only [Ctx.push, Ctx.findScope] at h ⊢; simp; right; simpa using h

end Tsh.C07
