import TshVerif.Model.EmitBash
namespace Tsh.C04
open Tsh Tsh.Bash

end Tsh.C04
