/-
  C04 - Operands are evaluated exactly once, in source order, conditions eagerly.

  The transpiler walk (Model/Transpile.lean, tied to transpiler.go by byte-for-byte correspondence of the
  scripts of both targets) is written once, generically over the converter, so the order and multiplicity
  of the converter operations it requests do not depend on the target.  Proved here with the tracing
  converter (Lemmas/Trace.lean), for EVERY expression:
    * `each_operand_once`: evaluating an expression requests exactly `opCount e` operations: one per
      operator / builtin / call / variable read / string literal node of the AST -- no sub-expression is
      evaluated twice or skipped (a single string index `s[i]` evaluates `i` once and passes its value
      as both bounds);
    * `arguments_left_to_right`, `binary_left_then_right`: the operations of the operands form consecutive
      blocks in source order, followed by the operation itself;
    * `if_conditions_before_branches`: for an if/else-if chain the condition of the `if` and of ALL
      `else if` branches are evaluated before the `if` operation is requested; the branches then only
      receive the already computed values (a `switch` is such a chain);
    * `loop_order`: init; for; (incr; statement; endincr)?; condition; forcond; body; endfor.
  For the bash target the same is visible in the block grammar of C01/C16 (`Shape`): between two
  branches of an if-chain there is no room for a statement.  That the AST lists operands in source
  order is the parser's part (AST correspondence); effect order at run time is decided by the tracer
  oracle of the check.
-/
import TshVerif.Lemmas.Trace
namespace Tsh.C04
open Tsh Tsh.Tr Tsh.Trace

/-- a computation that, when it succeeds, appends exactly `n` events -/
def Adds {α : Type} (n : Nat) (m : TM α) : Prop := ∀ s a s', m s = .ok (a, s') → s'.log.length = s.log.length + n

theorem adds_pure {α : Type} (a : α) : Adds 0 (pure a : TM α) := by
  intro s b s' h; rw [(pure_ok h).2]; rfl

theorem adds_bind {α β : Type} {j k : Nat} {x : TM α} {f : α → TM β} (hx : Adds j x) (hf : ∀ a, Adds k (f a)) :
    Adds (j + k) (x >>= f) := by
  intro s b s'' h
  obtain ⟨a, s', h1, h2⟩ := bind_ok h
  rw [hf a _ _ _ h2, hx _ _ _ h1]; omega

theorem adds_fail {α : Type} (n : Nat) (m : String) : Adds n (fail m : TM α) := by
  intro s a s' h; simp [fail] at h

theorem adds_val (op : String) (args : List String) : Adds 1 (val op args) := by
  intro s v s' h; exact val_len h

theorem Adds.cast {α : Type} {n m : Nat} {x : TM α} (h : Adds n x) (e : n = m) : Adds m x := e ▸ h

theorem adds_funcCall (n : String) (a : List String) (r : List ValueType) (u : Bool) : Adds 1 (Trace.conv.funcCall n a r u) := by
  intro s v s' h
  simp [Trace.conv] at h
  rw [← h.2]; simp

theorem adds_appCall (cs : List (String × List String)) (u : Bool) : Adds 1 (Trace.conv.appCall cs u) := by
  intro s v s' h
  simp [Trace.conv] at h
  rw [← h.2]; simp

mutual
/-- **Each operand exactly once.** -/
theorem each_operand_once (e : Expr) (used : Bool) : Adds (opCount e) (evalExpr Trace.conv e used) := by
  match e with
  | .boolLit b => unfold evalExpr; exact adds_pure _
  | .intLit n => unfold evalExpr; exact adds_pure _
  | .strLit s => unfold evalExpr; exact (adds_bind (adds_val _ _) (fun _ => adds_pure _)).cast (by simp [opCount])
  | .unary op x vt =>
    unfold evalExpr
    exact (adds_bind (each_operand_once x true) (fun _ => adds_bind (adds_val _ _) (fun _ => adds_pure _))).cast (by simp [opCount])
  | .binary op l r =>
    unfold evalExpr
    exact (adds_bind (each_operand_once l true) (fun _ => adds_bind (each_operand_once r true) (fun _ =>
      adds_bind (adds_val _ _) (fun _ => adds_pure _)))).cast (by simp [opCount]; omega)
  | .compare op l r =>
    unfold evalExpr
    exact (adds_bind (each_operand_once l true) (fun _ => adds_bind (each_operand_once r true) (fun _ =>
      adds_bind (adds_val _ _) (fun _ => adds_pure _)))).cast (by simp [opCount]; omega)
  | .logical op l r =>
    unfold evalExpr
    exact (adds_bind (each_operand_once l true) (fun _ => adds_bind (each_operand_once r true) (fun _ =>
      adds_bind (adds_val _ _) (fun _ => adds_pure _)))).cast (by simp [opCount]; omega)
  | .varEval v => unfold evalExpr; exact (adds_bind (adds_val _ _) (fun _ => adds_pure _)).cast (by simp [opCount])
  | .sliceEval value index dt =>
    unfold evalExpr
    exact (adds_bind (each_operand_once value true) (fun _ => adds_bind (each_operand_once index true) (fun _ =>
      adds_bind (adds_val _ _) (fun _ => adds_pure _)))).cast (by simp [opCount]; omega)
  | .substr value start none =>
    unfold evalExpr
    exact (adds_bind (each_operand_once start true) (fun _ => adds_bind (each_operand_once value true) (fun _ =>
      adds_bind (adds_val _ _) (fun _ => adds_pure _)))).cast (by simp [opCount]; omega)
  | .substr value start (some st) =>
    unfold evalExpr
    exact (adds_bind (each_operand_once start true) (fun _ => adds_bind (each_operand_once st true) (fun _ =>
      adds_bind (each_operand_once value true) (fun _ => adds_bind (adds_val _ _) (fun _ => adds_pure _))))).cast (by simp [opCount]; omega)
  | .group x => unfold evalExpr; exact (each_operand_once x used).cast (by simp [opCount])
  | .call name rets args =>
    unfold evalExpr
    refine (adds_bind (args_once args) (fun _ => adds_bind (adds_funcCall _ _ _ _) (fun vs => ?_))).cast (by simp [opCount]; rfl)
    split
    · exact adds_fail 0 _
    · exact adds_pure _
  | .app name args none =>
    unfold evalExpr
    exact (adds_bind (chain_once (.app name args none)) (fun _ => adds_appCall _ _)).cast (by simp [opCount, chainCount])
  | .app name args (some nx) =>
    unfold evalExpr
    exact (adds_bind (chain_once (.app name args (some nx))) (fun _ => adds_appCall _ _)).cast (by simp [opCount, chainCount])
  | .sliceNew dt vals =>
    unfold evalExpr
    exact (adds_bind (args_once vals) (fun _ => adds_bind (adds_val _ _) (fun _ => adds_pure _))).cast (by simp [opCount])
  | .input none =>
    unfold evalExpr
    exact (adds_bind (adds_val _ _) (fun _ => adds_pure _)).cast (by simp [opCount])
  | .input (some x) =>
    unfold evalExpr
    exact (adds_bind (each_operand_once x used) (fun _ => adds_bind (adds_val _ _) (fun _ => adds_pure _))).cast (by simp [opCount])
  | .copy dst src =>
    unfold evalExpr
    exact (adds_bind (each_operand_once src true) (fun _ => adds_bind (adds_val _ _) (fun _ => adds_pure _))).cast (by simp [opCount])
  | .itoa x => unfold evalExpr; exact (adds_bind (each_operand_once x true) (fun _ => adds_pure _)).cast (by simp [opCount])
  | .exists_ x =>
    unfold evalExpr
    exact (adds_bind (each_operand_once x true) (fun _ => adds_bind (adds_val _ _) (fun _ => adds_pure _))).cast (by simp [opCount])
  | .len x =>
    unfold evalExpr
    refine (adds_bind (each_operand_once x true) (fun _ => ?_)).cast (by simp [opCount]; rfl)
    split
    · exact adds_bind (adds_val _ _) (fun _ => adds_pure _)
    · exact adds_bind (adds_val _ _) (fun _ => adds_pure _)
  | .read path =>
    unfold evalExpr
    split
    · exact adds_fail _ _
    · exact (adds_bind (each_operand_once path true) (fun _ => adds_bind (adds_val _ _) (fun _ => adds_pure _))).cast (by simp [opCount])
  | .write _ _ _ => unfold evalExpr; exact adds_fail _ _
  | .bad w => unfold evalExpr; exact adds_fail _ _

theorem args_once (es : List Expr) : Adds (opCounts es) (evalArgs Trace.conv es) := by
  match es with
  | [] => unfold evalArgs; exact adds_pure _
  | e :: rest =>
    unfold evalArgs
    exact (adds_bind (each_operand_once e true) (fun _ => adds_bind (args_once rest) (fun _ => adds_pure _))).cast (by simp [opCounts])

theorem chain_once (e : Expr) : Adds (chainCount e) (evalAppChain Trace.conv e) := by
  match e with
  | .app name args (some nx) =>
    unfold evalAppChain
    exact (adds_bind (args_once args) (fun _ => adds_bind (chain_once nx) (fun _ => adds_pure _))).cast (by simp [chainCount])
  | .app name args none =>
    unfold evalAppChain
    exact (adds_bind (args_once args) (fun _ => adds_pure _)).cast (by simp [chainCount])
  | .boolLit _ | .intLit _ | .strLit _ | .varEval _ | .unary _ _ _ | .binary _ _ _ | .compare _ _ _
  | .logical _ _ _ | .group _ | .call _ _ _ | .sliceNew _ _ | .sliceEval _ _ _ | .substr _ _ _ | .len _
  | .itoa _ | .exists_ _ | .read _ | .input _ | .copy _ _ | .write _ _ _ | .bad _ =>
    unfold evalAppChain; exact (adds_pure _).cast (by simp [chainCount])
end

/-- printed values: every expression once, in list order -/
theorem printed_values_once (es : List Expr) : Adds (opCounts es) (evalAll Trace.conv es) := by
  induction es with
  | nil => unfold evalAll; exact adds_pure _
  | cons e rest ih =>
    unfold evalAll
    exact (adds_bind (each_operand_once e true) (fun _ => adds_bind ih (fun _ => adds_pure _))).cast (by simp [opCounts])

/-- **Arguments, slice elements, returned values: left to right** -- for EVERY converter the argument
    walk is: first expression, then the rest, values collected in that order. -/
theorem arguments_left_to_right {σ : Type} (cv : Conv σ) (e : Expr) (rest : List Expr) :
    evalArgs cv (e :: rest) = (do let r ← evalExpr cv e true; let rs ← evalArgs cv rest; pure (firstValue r :: rs)) := by
  rw [evalArgs]

/-- **Binary operators: left operand, then right operand, then the operation on both values** -- for
    every converter (same for comparisons and the eager `&&` / `||`) -/
theorem binary_left_then_right {σ : Type} (cv : Conv σ) (op : String) (l r : Expr) (used : Bool) :
    evalExpr cv (.binary op l r) used = (do
      let a ← evalExpr cv l true
      let b ← evalExpr cv r true
      let s ← cv.binaryOperation (firstValue a) op (firstValue b) (Expr.valueType l) used
      pure [s]) := by
  rw [evalExpr]

theorem logical_is_eager {σ : Type} (cv : Conv σ) (op : String) (l r : Expr) (used : Bool) :
    evalExpr cv (.logical op l r) used = (do
      let a ← evalExpr cv l true
      let b ← evalExpr cv r true
      let s ← cv.logicalOperation (firstValue a) op (firstValue b) (Expr.valueType l) used
      pure [s]) := by
  rw [evalExpr]

/-- a single string index evaluates the index once and uses its value for both bounds -/
theorem single_index_once {σ : Type} (cv : Conv σ) (v a : Expr) (used : Bool) :
    evalExpr cv (.substr v a none) used = (do
      let x ← evalExpr cv a true
      let y ← evalExpr cv v true
      let s ← cv.stringSubscript (firstValue y) (firstValue x) (firstValue x) used
      pure [s]) := by
  rw [evalExpr]

/-- operations requested by the conditions of the else-if branches -/
def condCount : List (Expr × List Stmt) → Nat
  | [] => 0
  | (c, _) :: rest => opCount c + condCount rest

theorem conditions_once : ∀ (elifs : List (Expr × List Stmt)), Adds (condCount elifs) (evalConds Trace.conv elifs)
  | [] => by unfold evalConds; exact adds_pure _
  | (c, _) :: rest => by
    unfold evalConds
    exact (adds_bind (each_operand_once c true) (fun _ => adds_bind (conditions_once rest) (fun _ => adds_pure _))).cast (by simp [condCount])

/-- **All conditions of an if / else-if chain before any branch**: the walk evaluates the `if`
    condition, then the conditions of ALL else-if branches, and only then opens the `if`; the branches
    receive the values computed before (for every converter). -/
theorem if_conditions_before_branches {σ : Type} (cv : Conv σ) (cond : Expr) (body : List Stmt)
    (elifs : List (Expr × List Stmt)) (els : List Stmt) :
    evalStmt cv (.ifS cond body elifs els) = (do
      let c ← evalExpr cv cond true
      let ecs ← evalConds cv elifs
      cv.ifStart (firstValue c)
      evalBlock cv body
      evalElifs cv elifs ecs
      evalElse cv els
      cv.ifEnd) := by
  rw [evalStmt]

/-- the branches of the chain request no evaluation of their own condition: an else-if branch is the
    `elif` operation on the precomputed value, then its body -/
theorem elif_uses_precomputed_value {σ : Type} (cv : Conv σ) (c : Expr) (body : List Stmt)
    (rest : List (Expr × List Stmt)) (v : String) (vs : List String) :
    evalElifs cv ((c, body) :: rest) (v :: vs) = (do
      cv.elseIfStart v
      evalBlock cv body
      cv.elseIfEnd
      evalElifs cv rest vs) := by
  rw [evalElifs]

/-- **Loop order**: init; loop head; guarded increment; condition; exit test; body; loop end. -/
theorem loop_order {σ : Type} (cv : Conv σ) (init : Option Stmt) (cond : Expr) (incr : Option Stmt) (body : List Stmt) :
    evalStmt cv (.forS init cond incr body) = (do
      evalInit cv init
      cv.forStart
      evalIncr cv incr
      let c ← evalExpr cv cond true
      cv.forCondition (firstValue c)
      evalBlock cv body
      cv.forEnd) := by
  rw [evalStmt]

/-! non-vacuity: `f(g(1), x + "s")` with a tracing run -/
private def xv : Var := { name := "x", vt := ⟨.string, false⟩, global := true, pub := false }
private def ex : Expr := .call "f" [⟨.int, false⟩] [.call "g" [⟨.int, false⟩] [.intLit 1], .binary "+" (.varEval xv) (.strLit "s")]
#guard opCount ex == 5
#guard (match evalExpr Trace.conv ex true {} with | .ok (_, s) => s.log.map (·.op) | _ => []) == ["call", "load", "literal", "binary", "call"]

end Tsh.C04
