import TshVerif.Model.ConvBash
namespace Tsh.C04
open Tsh Tsh.Bash

end Tsh.C04
