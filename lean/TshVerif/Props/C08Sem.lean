/-
  C08 - String values are opaque data on every path: the semantic side.

  In the fragment of `C02.bash_preserves_semantics_with_functions` a string literal may contain every ASCII character
  except `$` and the backquote (`Sem.Src.plainLit`; those two are the known finding literal-dollar-backquote-expanded):
  double quotes, backslashes, blanks, tabs, line feeds, `*`, `?`, `[`, `~`, `;`, `&`, `|`, `<`, `>`, `(`, `)`, `#`, `!`,
  single quotes.  For every program of the fragment the script prints exactly the strings the source semantics
  computes - through assignment, concatenation, comparison, parameters and return values, slice elements, `copy`,
  subscripts, `len`, loops: a string value is never expanded, split, globbed or executed on any of these paths.
  That /bin/bash reads the rendered text `name="..."` as the structured line of the model is the part that is
  executed in every run of the check (all special strings of the C08 generator go through the Lean models next to
  /bin/bash; evidence key `semantic_models`).
-/
import TshVerif.Props.C02Sem
namespace Tsh.C08
open Tsh Tsh.Tr Tsh.Bash Tsh.Sem2

/-- **String values reach the output unchanged on every path of the fragment.** -/
theorem strings_are_opaque_in_the_script (p : Program) (hf : Src.fragP [] p = true) (ls : List Line)
    (hc : compile p = .ok ls) :
    ∃ hcmds cmds : List Cmd, ls = .shebang :: (flats hcmds ++ flats cmds) ∧
      ∀ fuel k out, Src.runProgram fuel p = some (k, out) →
        ∃ (o' : Out) (m' : Cfg), ExecCmds (hcmds ++ cmds) Cfg.init o' m' ∧ ((o' = .normal ∧ k = 0) ∨ o' = .exit k) ∧ m'.out = out :=
  C02.bash_preserves_semantics_with_functions p hf ls hc

/-- a string of shell-significant characters through a function, a slice, a concatenation and a subscript -/
def nasty : String := "a\"b\\c *?[x]~;&|<>()#!' \t{}=%"

def opaqueSample : Program :=
  let str : ValueType := ⟨.string, false⟩
  let strs : ValueType := ⟨.string, true⟩
  let v (n : String) (vt : ValueType) (g : Bool) : Var := ⟨n, vt, g, false⟩
  [.funcDef "id" false [str] [v "a" str false] [.ret [.varEval (v "a" str false)]],
   .varDef [v "s" str true] [.call "id" [str] [.strLit nasty]],
   .varDef [v "xs" strs true] [.sliceNew .string [.varEval (v "s" str true), .strLit "k"]],
   .print [.binary "+" (.strLit "<") (.binary "+" (.sliceEval (.varEval (v "xs" strs true)) (.intLit 0) .string) (.strLit ">"))],
   .print [.substr (.varEval (v "s" str true)) (.intLit 1) (some (.binary "-" (.intLit 5) (.intLit 1))), .len (.varEval (v "s" str true))]]

example : Src.fragP [] opaqueSample = true := by decide
#guard Src.runProgram 100 opaqueSample == some (0, ["<" ++ nasty ++ ">", "\"b\\c 28"])
#guard (match compile opaqueSample with | .ok ls => Tsh.Sem2.run 100 ls == some (.normal, ["<" ++ nasty ++ ">", "\"b\\c 28"]) | _ => false)

end Tsh.C08
