import TshVerif.Model.EmitBash
namespace Tsh.C17
open Tsh Tsh.Bash

end Tsh.C17
