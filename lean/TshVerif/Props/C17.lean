import TshVerif.Model.ConvBash
namespace Tsh.C17
open Tsh Tsh.Bash

end Tsh.C17
