/-
  C17 - write, read and exists behave as a line store over the file system.

  Proved here, about the model of transpiler.go/converters/bash (`WriteFile`, `ReadFile`, `Exists`)
  that the check ties to the code byte for byte:
    * `write_line`: `write(p, s[, append])` emits, after the statements of its operands, exactly one
      line: `if [ "<append>" -eq "1" ]; then printf '%s\n' "<s>" >> "<p>"; else printf '%s\n' "<s>" > "<p>"; fi`
      -- one file (the same quoted path in both branches), the same quoted content in both
      branches, always followed by exactly one newline (`printf '%s\n'`), appended only when the
      flag is 1; nothing else of the script mentions the path;
    * `write_path_and_content_opaque`: for literal path and content (blanks included, no `$`/backquote)
      both are read back by bash byte for byte (Lemmas/Quote.lean);
    * `read_line`, `exists_line`: `read` is `h="$(cat < "<p>")"` (quoted path, opened by the shell: the path is
      no operand of `cat`, so a leading dash or the path "-" is data), `exists` is `[ -e "<p>" ]` turned into 1/0;
    * a non-string path/content or non-bool append flag is an error, never a script.
  That `$( )` strips ALL trailing newlines (known finding read-strips-trailing-newlines) and what
  the redirections do to the file system are bash semantics, decided by the execution oracle.
-/
import TshVerif.Lemmas.Quote
import TshVerif.Lemmas.BashStmt
namespace Tsh.C17
open Tsh Tsh.Tr Tsh.Bash

/-- **`write` is one line with one path and one content.** -/
theorem write_line (path content append : String) (s : St) :
    conv.writeFile path content append s = .ok ((), { s with code := .writeFile append content path :: s.code }) := rfl

theorem write_line_text (a c p : String) :
    Line.render (.writeFile a c p) =
      "if [ \"" ++ a ++ "\" -eq \"1\" ]; then printf '%s\\n' \"" ++ c ++ "\" >> \"" ++ p ++ "\"; else printf '%s\\n' \"" ++ c ++ "\" > \"" ++ p ++ "\"; fi" := rfl

/-- literal path and content are read back by bash byte for byte, wherever the template puts them -/
theorem write_path_and_content_opaque (p c : String) (rest : List Char) (hp : plainString p = true) (hc : plainString c = true) :
    dqScan [] ((stringToString p).toList ++ '"' :: rest) = .ok p.toList rest ∧
    dqScan [] ((stringToString c).toList ++ '"' :: rest) = .ok c.toList rest :=
  ⟨stringToString_roundtrip p rest hp, stringToString_roundtrip c rest hc⟩

/-- a `write` statement with a path that is not a string is rejected (no script) -/
theorem write_rejects_nonstring_path (path data : Expr) (append : Option Expr) (s : St)
    (h : (Expr.valueType path).isString = false) :
    ∃ m, evalStmt conv (.expr (.write path data append)) s = .error m := by
  unfold evalStmt
  simp [h, Tr.fail]

theorem write_rejects_nonstring_data (path data : Expr) (append : Option Expr) (s : St)
    (hp : (Expr.valueType path).isString = true) (h : (Expr.valueType data).isString = false) :
    (∃ m, evalStmt conv (.expr (.write path data append)) s = .error m) ∨
    (∃ m, evalStmt conv (.expr (.write path data append)) s = .panic m) := by
  unfold evalStmt
  simp only [hp, Bool.not_true, Bool.false_eq_true, if_false]
  cases hr : evalExpr conv path true s with
  | ok r => left; simp [bind, hr, h, Tr.fail]
  | error m => left; exact ⟨m, by simp [bind, hr]⟩
  | panic m => right; exact ⟨m, by simp [bind, hr]⟩

/-- **`read`**: one assignment of `$(cat < "<path>")` to a fresh helper -/
theorem read_line (path : String) (s : St) :
    readFile path s = .ok (varEvalString s s!"_h{s.varCounter}" false,
      { s with varCounter := s.varCounter + 1,
               code := .assign (varName s s!"_h{s.varCounter}" false) s!"$(cat < \"{path}\")" :: s.code }) := by
  simp [readFile, bind, nextHelperVar, varAssignment, varEvaluation, Tr.get, addLine, Tr.modify, pure,
    varEvalString, varName, inFunction]

/-- **`exists`**: `[ -e "<path>" ]` turned into 1 / 0 -/
theorem exists_line (path : String) (s : St) :
    existsOp path s = .ok (varEvalString s s!"_h{s.varCounter}" false,
      { s with varCounter := s.varCounter + 1,
               code := .assignTest (varName s s!"_h{s.varCounter}" false) (.exists_ path) "1" "0" :: s.code }) := by
  simp [existsOp, bind, nextHelperVar, varAssignTest, varEvaluation, Tr.get, addLine, Tr.modify, pure,
    varEvalString, varName, inFunction]

end Tsh.C17
