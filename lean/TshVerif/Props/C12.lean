/-
  C12 - Program meaning is independent of layout: what the lexer model guarantees.
  (i) LF versus CRLF line ends cannot be observed by anything after CRLF normalisation;
  (ii) blanks and comments never reach the parser: the token list handed to the parser is a function
       of the kept lexemes only.
  The parser-level part (blank and comment-only lines at existing line breaks) is decided by the
  correspondence and the re-layout oracle of the check (DESIGN.md, C12).
-/
import TshVerif.Lemmas.Lexer
namespace Tsh.C12
open Tsh Tsh.Lexer Tsh.LexTables

/-- replace every line feed by carriage return + line feed -/
def toCRLF : Bytes → Bytes
  | [] => []
  | b :: rest => if b = 10 then 13 :: 10 :: toCRLF rest else b :: toCRLF rest

theorem normCRLF_id_of_noCR : ∀ (s : Bytes), (∀ b ∈ s, b ≠ 13) → normCRLF s = s := by
  intro s
  induction s with
  | nil => intro _; simp [normCRLF]
  | cons b t ih =>
    intro h
    have hb : b ≠ 13 := h b (by simp)
    have ht := ih (fun x hx => h x (by simp [hx]))
    unfold normCRLF
    split
    · rename_i heq; simp at heq; exact absurd heq.1 hb
    · rename_i heq; simp at heq; obtain ⟨rfl, rfl⟩ := heq; rw [ht]
    · rename_i heq; simp at heq

theorem normCRLF_toCRLF : ∀ (s : Bytes), (∀ b ∈ s, b ≠ 13) → normCRLF (toCRLF s) = s := by
  intro s
  induction s with
  | nil => intro _; simp [toCRLF, normCRLF]
  | cons b t ih =>
    intro h
    have hb : b ≠ 13 := h b (by simp)
    have ht := ih (fun x hx => h x (by simp [hx]))
    by_cases h10 : b = 10
    · subst h10
      simp [toCRLF, normCRLF, ht]
    · have : toCRLF (b :: t) = b :: toCRLF t := by simp [toCRLF, h10]
      rw [this]
      unfold normCRLF
      split
      · rename_i heq; simp at heq; exact absurd heq.1 hb
      · rename_i heq; simp at heq; obtain ⟨rfl, rfl⟩ := heq; rw [ht]
      · rename_i heq; simp at heq

/-- **LF versus CRLF**: writing a program with CRLF line ends gives exactly the same lexemes, tokens
    and positions as writing it with LF line ends. -/
theorem relayout_crlf (s : Bytes) (h : ∀ b ∈ s, b ≠ 13) :
    tokenizeTrace (toCRLF s) = tokenizeTrace s ∧ tokenize (toCRLF s) = tokenize s := by
  have h1 : tokenizeTrace (toCRLF s) = tokenizeTrace s := by
    simp [tokenizeTrace, normCRLF_toCRLF s h, normCRLF_id_of_noCR s h]
  exact ⟨h1, by simp [tokenize, h1]⟩

/-- **Blanks and comments never reach the parser**: no token of the token list is a SPACE or COMMENT. -/
theorem tokens_have_no_layout (src : Bytes) (ts : List Token) (h : tokenize src = .ok ts) :
    ∀ t ∈ ts, t.ty ≠ TT_SPACE ∧ t.ty ≠ TT_COMMENT := by
  unfold tokenize at h
  split at h
  · rename_i ls pos _
    simp at h
    subst h
    intro t ht
    simp at ht
    rcases ht with ⟨l, ⟨_, hl⟩, rfl⟩ | rfl
    · simp [Lexeme.toToken] at hl ⊢
      exact hl
    · simp [TT_EOF, TT_SPACE, TT_COMMENT]
  · simp at h
  · simp at h

/-- the token list is a function of the kept (non-blank, non-comment) lexemes and the end position -/
theorem tokens_from_kept_lexemes (a b : Bytes) (la lb : List Lexeme) (p : Nat × Nat)
    (ha : tokenizeTrace a = .ok (la, p)) (hb : tokenizeTrace b = .ok (lb, p))
    (hk : la.filter (fun l => !(l.ty == TT_SPACE || l.ty == TT_COMMENT)) = lb.filter (fun l => !(l.ty == TT_SPACE || l.ty == TT_COMMENT))) :
    tokenize a = tokenize b := by
  simp only [tokenize, ha, hb, hk]

end Tsh.C12
