/-
  C12 - Program meaning is independent of layout: what the lexer model guarantees.
  (i) LF versus CRLF line ends cannot be observed by anything after CRLF normalisation;
  (ii) blanks and comments never reach the parser: the token list handed to the parser is a function
       of the kept lexemes only;
  (iii) positions never influence what is lexed (`loop_positions_irrelevant`), and a space, a tab, a complete block
       comment or a line comment up to its line break inserted AT ANY LEXEME BOUNDARY of any input (= wherever the lexer
       loop stands) changes no token type and no token value of the rest - in particular not the reading of a following
       `-` (`blank_before_a_lexeme_changes_no_token`, `block_comment_before_a_lexeme_changes_no_token`,
       `line_comment_before_a_line_break_changes_no_token`, `leading_blank_changes_no_token`).
  The parser-level part (blank and comment-only lines at existing line breaks) is decided by the
  correspondence and the re-layout oracle of the check (DESIGN.md, C12).
-/
import TshVerif.Lemmas.Lexer
namespace Tsh.C12
open Tsh Tsh.Lexer Tsh.LexTables

/-- replace every line feed by carriage return + line feed -/
def toCRLF : Bytes → Bytes
  | [] => []
  | b :: rest => if b = 10 then 13 :: 10 :: toCRLF rest else b :: toCRLF rest

theorem normCRLF_id_of_noCR : ∀ (s : Bytes), (∀ b ∈ s, b ≠ 13) → normCRLF s = s := by
  intro s
  induction s with
  | nil => intro _; simp [normCRLF]
  | cons b t ih =>
    intro h
    have hb : b ≠ 13 := h b (by simp)
    have ht := ih (fun x hx => h x (by simp [hx]))
    unfold normCRLF
    split
    · rename_i heq; simp at heq; exact absurd heq.1 hb
    · rename_i heq; simp at heq; obtain ⟨rfl, rfl⟩ := heq; rw [ht]
    · rename_i heq; simp at heq

theorem normCRLF_toCRLF : ∀ (s : Bytes), (∀ b ∈ s, b ≠ 13) → normCRLF (toCRLF s) = s := by
  intro s
  induction s with
  | nil => intro _; simp [toCRLF, normCRLF]
  | cons b t ih =>
    intro h
    have hb : b ≠ 13 := h b (by simp)
    have ht := ih (fun x hx => h x (by simp [hx]))
    by_cases h10 : b = 10
    · subst h10
      simp [toCRLF, normCRLF, ht]
    · have : toCRLF (b :: t) = b :: toCRLF t := by simp [toCRLF, h10]
      rw [this]
      unfold normCRLF
      split
      · rename_i heq; simp at heq; exact absurd heq.1 hb
      · rename_i heq; simp at heq; obtain ⟨rfl, rfl⟩ := heq; rw [ht]
      · rename_i heq; simp at heq

/-- **LF versus CRLF**: writing a program with CRLF line ends gives exactly the same lexemes, tokens
    and positions as writing it with LF line ends. -/
theorem relayout_crlf (s : Bytes) (h : ∀ b ∈ s, b ≠ 13) :
    tokenizeTrace (toCRLF s) = tokenizeTrace s ∧ tokenize (toCRLF s) = tokenize s := by
  have h1 : tokenizeTrace (toCRLF s) = tokenizeTrace s := by
    simp [tokenizeTrace, normCRLF_toCRLF s h, normCRLF_id_of_noCR s h]
  exact ⟨h1, by simp [tokenize, h1]⟩

/-- **Blanks and comments never reach the parser**: no token of the token list is a SPACE or COMMENT. -/
theorem tokens_have_no_layout (src : Bytes) (ts : List Token) (h : tokenize src = .ok ts) :
    ∀ t ∈ ts, t.ty ≠ TT_SPACE ∧ t.ty ≠ TT_COMMENT := by
  unfold tokenize at h
  split at h
  · rename_i ls pos _
    simp at h
    subst h
    intro t ht
    simp at ht
    rcases ht with ⟨l, ⟨_, hl⟩, rfl⟩ | rfl
    · simp [Lexeme.toToken] at hl ⊢
      exact hl
    · simp [TT_EOF, TT_SPACE, TT_COMMENT]
  · simp at h
  · simp at h

/-- the token list is a function of the kept (non-blank, non-comment) lexemes and the end position -/
theorem tokens_from_kept_lexemes (a b : Bytes) (la lb : List Lexeme) (p : Nat × Nat)
    (ha : tokenizeTrace a = .ok (la, p)) (hb : tokenizeTrace b = .ok (lb, p))
    (hk : la.filter (fun l => !(l.ty == TT_SPACE || l.ty == TT_COMMENT)) = lb.filter (fun l => !(l.ty == TT_SPACE || l.ty == TT_COMMENT))) :
    tokenize a = tokenize b := by
  simp only [tokenize, ha, hb, hk]

/-! ### blanks between lexemes -/

/-- what the parser gets from a lexeme, positions aside -/
def keptL (l : Lexeme) : Bool := !(l.ty == TT_SPACE || l.ty == TT_COMMENT)
def tv (ls : List Lexeme) : List (Nat × Bytes) := (ls.filter keptL).map (fun l => (l.ty, l.val))
def resTV : Res (List Lexeme × (Nat × Nat)) → Res (List (Nat × Bytes))
  | .ok (ls, _) => .ok (tv ls)
  | .err => .err
  | .diverge => .diverge

theorem tv_append (a b : List Lexeme) : tv (a ++ b) = tv a ++ tv b := by simp [tv]

theorem step_space (last : Nat) (s : Bytes) : step last (32 :: s) = .tok TT_SPACE [32] s := by
  simp [step, scanBool, scanNumber, spanDigits, isDigitB, isAlphaB, scanPunct, punctB, stripPrefix?, TT_SPACE]

theorem step_tab (last : Nat) (s : Bytes) : step last (9 :: s) = .tok TT_SPACE [9] s := by
  simp [step, scanBool, scanNumber, spanDigits, isDigitB, isAlphaB, scanPunct, punctB, stripPrefix?, TT_SPACE]

/-- **Positions never influence what is lexed**: from the same remaining input and the same last kept type, two runs of the
    lexer loop that differ in the position counters (and in the positions stamped on the lexemes so far) yield the same kept
    (type, value) sequence - or both fail. -/
theorem loop_positions_irrelevant : ∀ (fuel last : Nat) (pos pos' : Nat × Nat) (s : Bytes) (acc acc' : List Lexeme),
    tv acc.reverse = tv acc'.reverse → resTV (loop fuel last pos s acc) = resTV (loop fuel last pos' s acc') := by
  intro fuel
  induction fuel with
  | zero =>
    intro last pos pos' s acc acc' h
    cases s with
    | nil => simp [loop, resTV, h]
    | cons c t => simp [loop, resTV]
  | succ n ih =>
    intro last pos pos' s acc acc' h
    cases s with
    | nil => simp [loop, resTV, h]
    | cons c t =>
      simp only [loop]
      cases hstep : step last (c :: t) with
      | err => simp [resTV]
      | tok ty val rest =>
        simp only
        apply ih
        simp only [List.reverse_cons, tv_append, h]
        congr 1
        simp only [tv, List.filter_cons, List.filter_nil, keptL]
        by_cases hk : (!(ty == TT_SPACE || ty == TT_COMMENT)) = true <;> simp [hk]

/-- **A blank in front of a lexeme changes no token.**  Wherever the lexer loop stands - i.e. at every lexeme boundary of every
    input - a space or a tab inserted there is a lexeme of its own that is dropped, leaves the "last kept type" alone (so the
    reading of a following `-` is unaffected) and shifts only positions: the kept (type, value) sequence of the rest is the same. -/
theorem blank_before_a_lexeme_changes_no_token (fuel last : Nat) (pos : Nat × Nat) (s : Bytes) (acc : List Lexeme) (b : UInt8)
    (hb : b = 32 ∨ b = 9) :
    resTV (loop (fuel + 1) last pos (b :: s) acc) = resTV (loop fuel last pos s acc) := by
  have hstep : step last (b :: s) = .tok TT_SPACE [b] s := by
    rcases hb with rfl | rfl
    · exact step_space last s
    · exact step_tab last s
  simp only [loop, hstep]
  apply loop_positions_irrelevant
  simp only [List.reverse_cons, tv_append]
  simp [tv, keptL]

/-- **A comment in front of a lexeme changes no token**: a complete block comment `/* body */`, or a line comment up to (not
    including) its line break, at any lexeme boundary is dropped, leaves the "last kept type" alone and shifts only positions. -/
theorem block_comment_before_a_lexeme_changes_no_token (fuel last : Nat) (pos : Nat × Nat) (body b rest : Bytes) (acc : List Lexeme)
    (h : scanBlockBody body = some (b, rest)) :
    resTV (loop (fuel + 1) last pos (47 :: 42 :: body) acc) = resTV (loop fuel last pos rest acc) := by
  have hstep : step last (47 :: 42 :: body) = .tok TT_COMMENT b rest := by
    simp [step, h]
  simp only [loop, hstep]
  apply loop_positions_irrelevant
  simp only [List.reverse_cons, tv_append]
  simp [tv, keptL]

theorem line_comment_before_a_line_break_changes_no_token (fuel last : Nat) (pos : Nat × Nat) (body : Bytes) (acc : List Lexeme) :
    resTV (loop (fuel + 1) last pos (47 :: 47 :: body) acc) = resTV (loop fuel last pos (scanLine body).2 acc) := by
  have hstep : step last (47 :: 47 :: body) = .tok TT_COMMENT (scanLine body).1 (scanLine body).2 := by
    simp [step]
  simp only [loop, hstep]
  apply loop_positions_irrelevant
  simp only [List.reverse_cons, tv_append]
  simp [tv, keptL]

/-- the same at the start of a file: `tokenize` of a source with a leading blank has the types and values of the source without -/
theorem leading_blank_changes_no_token (src : Bytes) (b : UInt8) (hb : b = 32 ∨ b = 9) :
    resTV (tokenizeTrace (b :: src)) = resTV (tokenizeTrace src) := by
  have hn : normCRLF (b :: src) = b :: normCRLF src := by
    rcases hb with rfl | rfl
    · rw [normCRLF]; intro rest h; exact absurd h (by decide)
    · rw [normCRLF]; intro rest h; exact absurd h (by decide)
  simp only [tokenizeTrace, hn, List.length_cons]
  exact blank_before_a_lexeme_changes_no_token _ 0 (1, 1) _ [] b hb

end Tsh.C12
