import TshVerif.Model.Lexer
namespace Tsh.C12
open Tsh Tsh.Lexer

end Tsh.C12
