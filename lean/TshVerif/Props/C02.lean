/-
  C02 - Bash target preserves function-call semantics and variable isolation.

  Proved here, about the model of transpiler.go + converters/bash/converter.go that the check ties to
  the code byte for byte:
    * `call_returns_all_values`: a used call hands back exactly as many values as the function declares;
    * `return_registers_in_order` / `call_reads_registers_in_order`: `return v0, v1, …` stores into the
      registers `_rv0, _rv1, …` in order, and the call site copies `_rv0, _rv1, …` in order into fresh
      helpers immediately after the call line -- before any other call can clobber them;
    * `parameters_bound_in_order`: parameter i is the `local` copy of positional argument i+1;
    * `locals_are_mangled`, `globals_are_not`: inside a function a non-global name is emitted as
      `f<funcCounter>_<name>`, a global name unchanged (so `=`, `op=`, `++`, multi-assignment, which all
      go through `varName` with the variable's global flag, write the global in place);
    * `each_function_gets_a_new_prefix`: `funcStart` increments the counter the prefix is built from;
    * `multi_assignment_reads_temporaries`: with several targets every right-hand side is first stored
      in a temporary `_ma<i>` and the stores to the targets read only those temporaries (`a, b = b, a`
      uses the old values).
  What bash does with `local`, `$n` and the registers is decided by the execution oracle of the check.
-/
import TshVerif.Lemmas.BashStmt
namespace Tsh.C02
open Tsh Tsh.Tr Tsh.Bash

theorem copyRets_length : ∀ (n i : Nat) (s s' : St) (vs : List String), copyRets n i s = .ok (vs, s') → vs.length = n := by
  intro n
  induction n with
  | zero => intro i s s' vs h; simp [copyRets, pure] at h; simp [h.1.symm]
  | succ n ih =>
    intro i s s' vs h
    unfold copyRets at h
    obtain ⟨_, _, _, h⟩ := bind_ok h
    obtain ⟨_, _, _, h⟩ := bind_ok h
    obtain ⟨_, _, _, h⟩ := bind_ok h
    obtain ⟨_, _, _, h⟩ := bind_ok h
    obtain ⟨rest, _, hr, h⟩ := bind_ok h
    have := (pure_ok h).1
    simp [this, ih _ _ _ _ hr]

/-- **All declared return values reach the call site.** -/
theorem call_returns_all_values (name : String) (args : List String) (rets : List ValueType) (used : Bool)
    (s s' : St) (vs : List String) (h : funcCall name args rets used s = .ok (vs, s')) : vs.length = rets.length := by
  unfold funcCall at h
  obtain ⟨_, s1, _, h⟩ := bind_ok h
  obtain ⟨out, s2, ho, h⟩ := bind_ok h
  have hv := (pure_ok h).1
  subst hv
  cases used with
  | true =>
    simp only [if_true] at ho
    have := copyRets_length _ _ _ _ _ ho
    simp [this]
  | false =>
    simp only [Bool.false_eq_true, if_false] at ho
    have := (pure_ok ho).1
    simp [this]

/-- the lines `return v0, v1, …` stores: `_rv<i>="v_i"` for i = start, start+1, … -/
def retLines : List String → Nat → List Line
  | [], _ => []
  | v :: rest, i => .assign s!"_rv{i}" v :: retLines rest (i + 1)

/-- **Return values travel through the registers in order.** -/
theorem return_registers_in_order : ∀ (vs : List String) (i : Nat) (s : St),
    storeRets vs i s = .ok ((), { s with code := (retLines vs i).reverse ++ s.code }) := by
  intro vs
  induction vs with
  | nil => intro i s; simp [storeRets, retLines, pure]
  | cons v rest ih =>
    intro i s
    unfold storeRets
    simp only [bind, varAssignment, Tr.get, addLine, Tr.modify, varName, Bool.not_true, Bool.and_false, Bool.false_eq_true, if_false]
    rw [ih]
    simp [retLines]

/-- the lines a used call emits after the call line: `_h<k+j>="${_rv<i+j>}"` -/
def copyLines (s : St) : Nat → Nat → Nat → List Line
  | 0, _, _ => []
  | n + 1, i, k => .assign (varName s s!"_h{k}" false) (varEvalString s s!"_rv{i}" true) :: copyLines s n (i + 1) (k + 1)

/-- the references to those helpers -/
def copyVals (s : St) : Nat → Nat → List String
  | 0, _ => []
  | n + 1, k => varEvalString s s!"_h{k}" false :: copyVals s n (k + 1)

theorem copyRets_run : ∀ (n i : Nat) (s t : St), t.funcs = s.funcs → t.funcCounter = s.funcCounter →
    copyRets n i t = .ok (copyVals s n t.varCounter,
      { t with varCounter := t.varCounter + n, code := (copyLines s n i t.varCounter).reverse ++ t.code }) := by
  intro n
  induction n with
  | zero => intro i s t _ _; simp [copyRets, copyLines, copyVals, pure]
  | succ n ih =>
    intro i s t hf hc
    unfold copyRets
    simp only [bind, nextHelperVar, Tr.get, varAssignment, addLine, Tr.modify, varEvaluation, pure]
    rw [ih (i + 1) s]
    · simp [copyLines, copyVals, varName, varEvalString, inFunction, hf, hc, Nat.add_assoc, Nat.add_comm 1 n]
    · exact hf
    · exact hc

/-- **The call site reads the registers in order, into fresh helpers.** -/
theorem call_reads_registers_in_order (n i : Nat) (s : St) :
    copyRets n i s = .ok (copyVals s n s.varCounter,
      { s with varCounter := s.varCounter + n, code := (copyLines s n i s.varCounter).reverse ++ s.code }) :=
  copyRets_run n i s s rfl rfl

/-- the `local` lines of a function head -/
def paramLines (s : St) : List String → Nat → List Line
  | [], _ => []
  | p :: rest, i => .localAssign (varName s p false) (i + 1) :: paramLines s rest (i + 1)

theorem localParams_run : ∀ (ps : List String) (i : Nat) (s t : St), t.funcs = s.funcs → t.funcCounter = s.funcCounter →
    localParams ps i t = .ok ((), { t with code := (paramLines s ps i).reverse ++ t.code }) := by
  intro ps
  induction ps with
  | nil => intro i s t _ _; simp [localParams, paramLines, pure]
  | cons p rest ih =>
    intro i s t hf hc
    unfold localParams
    simp only [bind, Tr.get, addLine, Tr.modify]
    rw [ih (i + 1) s]
    · simp [paramLines, varName, inFunction, hf, hc]
    · exact hf
    · exact hc

/-- **Arguments are bound to parameters in order**, as `local` copies of `$1`, `$2`, … -/
theorem parameters_bound_in_order (ps : List String) (i : Nat) (s : St) :
    localParams ps i s = .ok ((), { s with code := (paramLines s ps i).reverse ++ s.code }) :=
  localParams_run ps i s s rfl rfl

/-- **Locals are mangled** with the number of the function being emitted … -/
theorem locals_are_mangled (s : St) (name : String) (h : s.funcs ≠ []) :
    varName s name false = s!"f{s.funcCounter}_{name}" := by
  cases hf : s.funcs with
  | nil => exact absurd hf h
  | cons a b => simp [varName, inFunction, hf]

/-- … **globals are not**, neither inside nor outside a function, and at top level nothing is. -/
theorem globals_are_not (s : St) (name : String) : varName s name true = name := by
  simp [varName]

theorem top_level_names_unchanged (s : St) (name : String) (g : Bool) (h : s.funcs = []) : varName s name g = name := by
  simp [varName, inFunction, h]

/-- every function definition gets a new prefix number, larger than all earlier ones -/
theorem each_function_gets_a_new_prefix (name : String) (ps : List String) (s s' : St) (a : Unit)
    (h : conv.funcStart name ps s = .ok (a, s')) : s'.funcCounter = s.funcCounter + 1 ∧ s'.funcs = name :: s.funcs := by
  have f := funcStart_ok h
  exact ⟨f.funcCounter, f.funcs⟩

/-- the values of a multi-assignment: with more than one target every value is a reference to a temporary `_ma<i>` -/
theorem multi_assignment_reads_temporaries (count : Nat) (hc : count > 1) :
    ∀ (n : Nat) (vals : List Expr) (i : Nat) (s s' : St) (values : List String),
      assignedValues conv count vals n i s = .ok (values, s') →
      ∀ v ∈ values, ∃ j : Nat, v = varEvalString s s!"_ma{j}" false := by
  intro n
  induction n with
  | zero => intro vals i s s' values h; simp [assignedValues, pure] at h; obtain ⟨rfl, _⟩ := h; simp
  | succ n ih =>
    intro vals i s s' values h
    cases vals with
    | nil => simp [assignedValues, Tr.panic] at h
    | cons e rest =>
      unfold assignedValues at h
      obtain ⟨r, s1, h1, h⟩ := bind_ok h
      obtain ⟨v, s2, h2, h⟩ := bind_ok h
      obtain ⟨vs, s3, h3, h⟩ := bind_ok h
      have hv := (pure_ok h).1
      subst hv
      simp only [hc, if_true] at h2
      obtain ⟨_, s1', h21, h22⟩ := bind_ok h2
      have f1 := (evalExpr_simple e true).frame _ _ _ h1
      have f2 := (simple_varAssignment _ _ _).frame _ _ _ h21
      have f12 := f1.trans f2
      have hv' : v = varEvalString s s!"_ma{i}" false := by
        have : varEvaluation s!"_ma{i}" false s1' = .ok (v, s2) := h22
        simp [varEvaluation, bind, Tr.get, pure] at this
        rw [← this.1]
        simp [varEvalString, varName, inFunction, f12.funcs, f12.funcCounter]
      have f22 : Frame s1' s2 := (simple_varEvaluation _ _).frame _ _ _ h22
      have f02 := f12.trans f22
      intro w hw
      simp at hw
      rcases hw with rfl | hw
      · exact ⟨i, hv'⟩
      · obtain ⟨j, hj⟩ := ih rest (i + 1) s2 s3 vs h3 w hw
        exact ⟨j, by rw [hj]; simp [varEvalString, varName, inFunction, f02.funcs, f02.funcCounter]⟩

end Tsh.C02
