import TshVerif.Model.ConvBash
namespace Tsh.C02
open Tsh Tsh.Bash

end Tsh.C02
