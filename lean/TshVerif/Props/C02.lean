import TshVerif.Model.EmitBash
namespace Tsh.C02
open Tsh Tsh.Bash

end Tsh.C02
