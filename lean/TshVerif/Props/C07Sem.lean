/-
  C07, placement - ACCEPTED PROGRAMS ARE WELL PLACED.

  Proved about the parser model (all file systems, import graphs, token sequences): in an AST the parser returns
    * `continue` stands inside the body of a loop, `return` inside the body of a function,
    * a function is defined only at the top level of a file (not in a function, loop, branch or case), under a non-empty
      name, and its body is checked as a body of a function that is in no loop,
    * `break` stands inside a loop OR inside a `switch` (the parser's rule; the AST no longer shows the switch - it is an
      if chain - so this clause is the flag `brkAnywhere`; a `break` in a switch outside of a loop is the known finding
      break-in-switch: Bash gets a stray `break`, the Batch converter refuses),
  i.e. `placedStmts { brkAnywhere := true } p = true` (Model/Typed.lean), the hypothesis of the Batch emit-totality theorem
  up to that flag.  With `breaks_in_loops` (decidable on the AST: every `break` is inside a loop) it is the strict placement,
  and `accepted_programs_translate_for_both_targets` closes C06's "typing does not depend on the target" end to end.

  The proof walks the block part of the parser once more (Lemmas/ParserPlaced*.lean) with the scope stack of the context
  as the invariant (`program` at the bottom and nowhere else) and reads the statement context off it.
-/
import TshVerif.Lemmas.ParserPlacedProg
import TshVerif.Lemmas.ParserUseProg
import TshVerif.Lemmas.ParserDefs
import TshVerif.Props.C06Sem
import TshVerif.Lemmas.BatchTotal
namespace Tsh.C07
open Tsh Tsh.Tr Tsh.Parser

/-- **Every accepted program is well placed.** -/
theorem accepted_programs_are_placed (fs : FileSys) (main : String) (p : Parsed) (s : PSt)
    (h : Parser.parse fs main = .ok p s) : placedStmts { brkAnywhere := true } p.body = true := by
  obtain ⟨raw, hraw, hcl⟩ := parse_eq_clean h
  have S := stmtIH_all exprIH_all
  have hr : placedTop raw.body := by
    unfold parseRaw at hraw
    split at hraw
    · simp at hraw
    · split at hraw
      · simp at hraw
      · split at hraw
        · simp at hraw
        · dsimp only at hraw
          split at hraw
          · rename_i body s1 he
            simp only [PRes.ok.injEq] at hraw
            obtain ⟨rfl, _⟩ := hraw
            exact evalProgram_placed S exprIH_all (filePlaced_all S exprIH_all _) (fileOK_all S _) _ _ _ _ _ _ _ he
          · simp at hraw
          · simp at hraw
          · simp at hraw
  exact cleanProgram_placed hcl hr

/-! ### `break` only in loops: what separates the parser's placement from the strict one -/

mutual
def brkS (inLoop : Bool) : Stmt → Bool
  | .brk => inLoop
  | .funcDef _ _ _ _ body => brkSs false body
  | .ifS _ body elifs els => brkSs inLoop body && brkEl inLoop elifs && brkSs inLoop els
  | .forS init _ incr body => brkO inLoop init && brkO true incr && brkSs true body
  | _ => true
def brkSs (inLoop : Bool) : List Stmt → Bool
  | [] => true
  | s :: rest => brkS inLoop s && brkSs inLoop rest
def brkO (inLoop : Bool) : Option Stmt → Bool
  | none => true
  | some s => brkS inLoop s
def brkEl (inLoop : Bool) : List (Expr × List Stmt) → Bool
  | [] => true
  | (_, body) :: rest => brkSs inLoop body && brkEl inLoop rest
end

/-- every `break` of the program is inside a loop -/
def breaks_in_loops (p : Program) : Bool := brkSs false p

mutual
theorem strict_of_brkS : (s : Stmt) → (l f : Bool) → Stmt.placed { inLoop := l, inFunc := f, brkAnywhere := true } s = true →
    brkS l s = true → Stmt.placed { inLoop := l, inFunc := f, brkAnywhere := false } s = true
  | .brk, l, f, _, hb => by simpa [Stmt.placed, brkS] using hb
  | .funcDef n _ _ _ body, l, f, h, hb => by
      simp only [Stmt.placed, Bool.and_eq_true] at h ⊢
      simp only [brkS] at hb
      exact ⟨h.1, strict_of_brkSs body false true h.2 hb⟩
  | .ifS _ body elifs els, l, f, h, hb => by
      simp only [Stmt.placed, Bool.and_eq_true] at h ⊢
      simp only [brkS, Bool.and_eq_true] at hb
      exact ⟨⟨strict_of_brkSs body l f h.1.1 hb.1.1, strict_of_brkEl elifs l f h.1.2 hb.1.2⟩, strict_of_brkSs els l f h.2 hb.2⟩
  | .forS init _ incr body, l, f, h, hb => by
      simp only [Stmt.placed, Bool.and_eq_true] at h ⊢
      simp only [brkS, Bool.and_eq_true] at hb
      exact ⟨⟨strict_of_brkO init l f h.1.1 hb.1.1, strict_of_brkO incr true f h.1.2 hb.1.2⟩, strict_of_brkSs body true f h.2 hb.2⟩
  | .ret _, _, _, h, _ | .cont, _, _, h, _ => by simpa [Stmt.placed] using h
  | .varDef _ _, _, _, _, _ | .varDefCall _ _, _, _, _, _ | .assign _ _, _, _, _, _ | .assignCall _ _, _, _, _, _
  | .sliceAssign _ _ _, _, _, _, _ | .print _, _, _, _, _ | .panic _, _, _, _, _ | .expr _, _, _, _, _ => rfl
theorem strict_of_brkSs : (ss : List Stmt) → (l f : Bool) → placedStmts { inLoop := l, inFunc := f, brkAnywhere := true } ss = true →
    brkSs l ss = true → placedStmts { inLoop := l, inFunc := f, brkAnywhere := false } ss = true
  | [], _, _, _, _ => rfl
  | s :: rest, l, f, h, hb => by
      simp only [placedStmts, Bool.and_eq_true] at h ⊢
      simp only [brkSs, Bool.and_eq_true] at hb
      exact ⟨strict_of_brkS s l f h.1 hb.1, strict_of_brkSs rest l f h.2 hb.2⟩
theorem strict_of_brkO : (o : Option Stmt) → (l f : Bool) → placedOpt { inLoop := l, inFunc := f, brkAnywhere := true } o = true →
    brkO l o = true → placedOpt { inLoop := l, inFunc := f, brkAnywhere := false } o = true
  | none, _, _, _, _ => rfl
  | some s, l, f, h, hb => by
      simp only [placedOpt] at h ⊢
      simp only [brkO] at hb
      exact strict_of_brkS s l f h hb
theorem strict_of_brkEl : (es : List (Expr × List Stmt)) → (l f : Bool) →
    placedElifs { inLoop := l, inFunc := f, brkAnywhere := true } es = true → brkEl l es = true →
    placedElifs { inLoop := l, inFunc := f, brkAnywhere := false } es = true
  | [], _, _, _, _ => rfl
  | (_, body) :: rest, l, f, h, hb => by
      simp only [placedElifs, Bool.and_eq_true] at h ⊢
      simp only [brkEl, Bool.and_eq_true] at hb
      exact ⟨strict_of_brkSs body l f h.1 hb.1, strict_of_brkEl rest l f h.2 hb.2⟩
end

/-- **Acceptance does not depend on the target, from the source text on**: a program the parser accepts, without the two
    constructs of `PT.strict` and with its `break`s in loops, is translated by BOTH emitters. -/
theorem accepted_programs_translate_for_both_targets (fs : FileSys) (main : String) (p : Parsed) (s : PSt)
    (h : Parser.parse fs main = .ok p s) (hs : PT.strictSs p.body = true) (hb : breaks_in_loops p.body = true) :
    (∃ sh, Bash.emitBash p.body = .ok sh) ∧ (∃ bat, Batch.emitBatch p.body = .ok bat) := by
  have ht := C06.parser_typed_and_strict_is_typed p.body (C06.accepted_programs_are_typed fs main p s h) hs
  have hp : placedStmts {} p.body = true := strict_of_brkSs p.body false false (accepted_programs_are_placed fs main p s h) hb
  obtain ⟨l1, h1⟩ := Bash.compile_total p.body ht
  obtain ⟨l2, h2⟩ := Batch.compile_total p.body ht hp
  exact ⟨⟨_, by unfold Bash.emitBash; rw [h1]⟩, ⟨_, by unfold Batch.emitBatch; rw [h2]⟩⟩

/-! ### names resolve lexically: every variable used is a visible one

`PT.useSs Γ ss` (Model/PTyped.lean): walking the statements in order with the list `Γ` of the variables visible so far -
a definition adds its variables for the statements after it in the same list, a block's definitions end with the block, a
function body starts again from the globals and the parameters, a loop header's variables are visible in the condition, the
step and the body - every variable that is read, assigned, element-assigned, copied into or counted up or down is a member
of `Γ`, as the very `Var` (stored name, type, global flag) that was introduced.  So no accepted program uses a variable
before its definition, after the end of its block, from the caller's locals, or with another type than it was introduced
with.  (The only-if half of "usable exactly from its definition to the end of its block"; the if half - everything in scope
is accepted - is measured by the scope generator of the check.) -/

/-- unused-function removal keeps the fact: a function definition introduces no variable -/
theorem useSs_filter (keep : Stmt → Bool) (hk : ∀ st, keep st = false → ∀ Γ, PT.declared Γ st = Γ) :
    ∀ (ss : List Stmt) (Γ : List Var), PT.useSs Γ ss = true → PT.useSs Γ (ss.filter keep) = true
  | [], _, _ => rfl
  | st :: rest, Γ, h => by
      simp only [PT.useSs, Bool.and_eq_true] at h
      cases hks : keep st with
      | true =>
        simp only [List.filter_cons, hks, if_true, PT.useSs, Bool.and_eq_true]
        exact ⟨h.1, useSs_filter keep hk rest _ h.2⟩
      | false =>
        simp only [List.filter_cons, hks, Bool.false_eq_true, if_false]
        exact useSs_filter keep hk rest Γ (hk st hks Γ ▸ h.2)

theorem declaredAll_filter (keep : Stmt → Bool) (hk : ∀ st, keep st = false → ∀ Γ, PT.declared Γ st = Γ) :
    ∀ (ss : List Stmt) (Γ : List Var), PT.declaredAll Γ (ss.filter keep) = PT.declaredAll Γ ss
  | [], _ => rfl
  | st :: rest, Γ => by
      cases hks : keep st with
      | true =>
        simp only [List.filter_cons, hks, if_true, PT.declaredAll, List.foldl_cons]
        exact declaredAll_filter keep hk rest _
      | false =>
        simp only [List.filter_cons, hks, Bool.false_eq_true, if_false, PT.declaredAll, List.foldl_cons]
        rw [hk st hks Γ]
        exact declaredAll_filter keep hk rest _

/-- **Every variable an accepted program uses is visible where it is used** - in the file's own statements, with the
    imported statements in front of them as the outermost definitions (an imported file's own statements: next theorem). -/
theorem accepted_programs_use_visible_variables (fs : FileSys) (main : String) (p : Parsed) (s : PSt)
    (h : Parser.parse fs main = .ok p s) :
    ∃ imported own, p.body = imported ++ own ∧ PT.useSs (PT.declaredAll [] imported) own = true := by
  obtain ⟨raw, hraw, hcl⟩ := parse_eq_clean h
  have hr : ∃ imported own, raw.body = imported ++ own ∧ PT.useSs (PT.declaredAll [] imported) own = true := by
    unfold parseRaw at hraw
    split at hraw
    · simp at hraw
    · split at hraw
      · simp at hraw
      · split at hraw
        · simp at hraw
        · dsimp only at hraw
          split at hraw
          · rename_i body s1 he
            simp only [PRes.ok.injEq] at hraw
            obtain ⟨rfl, _⟩ := hraw
            exact evalProgram_use _ _ _ _ _ _ _ _ he
          · simp at hraw
          · simp at hraw
          · simp at hraw
  obtain ⟨imported, own, hb, hu⟩ := hr
  unfold cleanProgram at hcl
  cases hk : getUsedFuncs raw.usedFuncs "" with
  | none => simp [hk] at hcl
  | some keep =>
    simp only [hk, Option.bind_eq_bind, Option.bind_some, Option.pure_def, Option.some.injEq] at hcl
    have key : ∀ (kf : Stmt → Bool), (∀ st, kf st = false → ∀ Γ, PT.declared Γ st = Γ) →
        PT.useSs (PT.declaredAll [] (imported.filter kf)) (own.filter kf) = true := fun kf hkf => by
      rw [declaredAll_filter kf hkf]; exact useSs_filter kf hkf own _ hu
    refine ⟨_, _, by rw [← hcl, hb, List.filter_append], ?_⟩
    apply key
    intro st hst Γ
    cases st <;> simp_all [PT.declared]

/-- the same for every file that is parsed on the way (imported files, at any nesting): its own statements use visible
    variables only -/
theorem parsed_files_use_visible_variables (depth : Nat) (fs : FileSys) (path : String) (importing : List String) (fuel : Nat)
    (s0 s' : PSt) (body : List Stmt) (h : evalProgram depth fs path importing fuel s0 = .ok body s') :
    ∃ imported own, body = imported ++ own ∧ PT.useSs (PT.declaredAll [] imported) own = true :=
  evalProgram_use depth fs path importing fuel s0 s' body h

/-- … and for every statement the statement parser returns, in any context whose variables are in `Γ` -/
theorem parsed_statement_uses_visible_variables (Γ : List Var) (fuel : Nat) (ctx : Ctx) (hc : VarsIn Γ ctx) (s s' : PSt) (st : Stmt)
    (h : evalStatement fuel ctx s = .ok st s') : PT.useS Γ st = true :=
  (useSIH_all useIH_all fuel).statement Γ ctx hc s st s' h

/-! ### redefinition: which names of a definition must be new

Proved about the definition parser (`evaluateVarDefinition`, reached by `evaluateStatement` for `var …` and for `… := …`) in
EVERY context `ctx`: whenever it returns a statement, the statement defines one variable per written name, stored under the
name as written (under the file's prefix on the top level of an imported file) with the level's global flag, and
  * a definition of ONE name needs that name to be new (nothing visible is found under it),
  * a `var` definition needs ALL its names to be new,
  * a short definition of several names needs at least one new name; a name of it that exists on the same level is assigned
    to and keeps its type (`defFact`, third part: theorem `C06.definition_keeps_the_type_of_an_existing_variable`),
  * NO NAME IS WRITTEN TWICE in one definition (`hasDupNames names = false`; fix ebdb224: `a, a := 1, 2` had been accepted).
"New" is the parser's own lookup (`isNewVar`: `findVariable` finds nothing), so the theorem says what the lookup is used for,
not what it finds - that is the visibility theorem above and the scope skeletons. -/
theorem definitions_need_new_names (fuel : Nat) (ctx : Ctx) (s s' : PSt) (st : Stmt)
    (h : evalVarDefinition fuel ctx s = .ok st s') :
    ∃ (pfx : String) (names : List Tok) (short : Bool), names ≠ [] ∧ (defVars st).length = names.length ∧
      (∀ i (h1 : i < names.length) (h2 : i < (defVars st).length),
        (defVars st)[i].name = (if ctx.global then prefixed pfx names[i].val else names[i].val) ∧ (defVars st)[i].global = ctx.global) ∧
      (names.length = 1 → ∀ t ∈ names, isNewVar ctx pfx t.val = true) ∧
      (short = false → ∀ t ∈ names, isNewVar ctx pfx t.val = true) ∧
      (∃ t ∈ names, isNewVar ctx pfx t.val = true) ∧
      hasDupNames names = false := by
  obtain ⟨pfx, names, short, h1, h2, h3, h4, h5, h6, h7⟩ := def_varDefinition fuel ctx s st s' h
  exact ⟨pfx, names, short, h1, h2, fun i a b => ⟨(h3 i a b).1, (h3 i a b).2.1⟩, h4, h5, h6, h7⟩

/-- **A function is defined on the top level of a file, under a name no visible function has**: whenever the function-definition
    parser returns a statement, in any context, the context is the global scope (`program` on top of the scope stack) and the
    lookup `findFunction` finds nothing under the written name (for the file's prefix); the statement is the definition under
    the prefixed name. -/
theorem function_definitions_need_a_new_name_on_the_top_level (fuel : Nat) (ctx : Ctx) (s s' : PSt) (st : Stmt)
    (h : evalFunctionDefinition fuel ctx s = .ok st s') :
    ∃ (pfx : String) (nameTok : Tok) (pub : Bool) (rets : List ValueType) (params : List Var) (body : List Stmt),
      st = .funcDef (prefixed pfx nameTok.val) pub rets params body ∧ ctx.global = true ∧ ctx.findFunc nameTok.val pfx = none :=
  def_functionDefinition fuel ctx s st s' h

/-! non-vacuity and the excluded shape -/
private def fsOf (src : String) : FileSys := { files := [("/v/main.tsh", src.toUTF8.toList, "h0000000")], exeDir := "/x" }
private def accepted (src : String) : Option Program :=
  match Parser.parse (fsOf src) "/v/main.tsh" with
  | .ok p _ => some p.body
  | _ => none

#guard ((accepted "func f(a int) int {\n\tfor i := 0; i < a; i++ {\n\t\tif i == 2 {\n\t\t\tcontinue\n\t\t}\n\t\tif i == 3 {\n\t\t\tbreak\n\t\t}\n\t}\n\treturn a\n}\nprint(f(4))\n").map
  fun p => (placedStmts { brkAnywhere := true } p, breaks_in_loops p, placedStmts {} p)) == some (true, true, true)
-- misplaced constructs are rejected by the model
#guard (accepted "continue\n").isNone
#guard (accepted "return 1\n").isNone
#guard (accepted "if true {\n\tfunc g() {\n\t}\n}\n").isNone
#guard (accepted "break\n").isNone
#guard (accepted "switch 1 {\ncase 1:\n\tcontinue\n}\n").isNone
-- the known finding: `break` in a switch outside of a loop is accepted; it is placed only in the parser's sense
#guard ((accepted "switch 1 {\ncase 1:\n\tbreak\n}\n").map
  fun p => (placedStmts { brkAnywhere := true } p, breaks_in_loops p, placedStmts {} p)) == some (true, false, false)

-- variables: the predicate holds of an accepted program with globals, a function with parameters and locals, nested
-- blocks, a three-part loop, a range loop with index and element, a switch, copy and element assignment ...
private def scopeSrc : String :=
  "var g = 1\nxs := []int{1, 2}\nfunc f(a int) int {\n\tb := a + g\n\tif b > 1 {\n\t\tc := b\n\t\tb = c + 1\n\t}\n\treturn b\n}\n" ++
  "for i := 0; i < 2; i++ {\n\tg += i\n}\nfor k, v := range xs {\n\txs[k] = v + g\n}\nfor j := range \"ab\" {\n\tg = g + j\n}\n" ++
  "ys := []int{0, 0}\nn := copy(ys, xs)\nswitch n {\ncase 2:\n\tz := f(n)\n\tprint(z)\n}\ng++\n"
#guard ((accepted scopeSrc).map (PT.useSs [])) == some true
-- ... and it is a real constraint: the same predicate fails on ASTs that use a variable outside its scope
private def vI (n : String) (g : Bool) : Var := ⟨n, ⟨.int, false⟩, g, false⟩
-- use before the definition
#guard PT.useSs [] [.print [.varEval (vI "a" true)], .varDef [vI "a" true] [.intLit 1]] == false
-- use after the end of the block
#guard PT.useSs [] [.ifS (.boolLit true) [.varDef [vI "a" false] [.intLit 1]] [] [], .print [.varEval (vI "a" false)]] == false
-- a function body does not see the caller's locals (only globals and parameters)
#guard PT.useSs [] [.ifS (.boolLit true) [.varDef [vI "l" false] [.intLit 1],
    .funcDef "f" false [] [] [.print [.varEval (vI "l" false)]]] [] []] == false
#guard PT.useSs [] [.varDef [vI "g" true] [.intLit 1], .funcDef "f" false [] [vI "p" false] [.print [.varEval (vI "g" true), .varEval (vI "p" false)]]] == true
-- a variable used with another type than it was defined with
#guard PT.useSs [] [.varDef [vI "a" true] [.intLit 1], .print [.varEval ⟨"a", ⟨.string, false⟩, true, false⟩]] == false
-- assignment, element assignment, copy into, counting: the target must be visible too
#guard PT.useSs [] [.assign [vI "a" true] [.intLit 1]] == false
#guard PT.useSs [] [.sliceAssign ⟨"s", ⟨.int, true⟩, true, false⟩ (.intLit 0) (.intLit 1)] == false
#guard PT.useSs [] [.expr (.copy ⟨"s", ⟨.int, true⟩, true, false⟩ (.sliceNew .int []))] == false
-- a loop variable ends with the loop
#guard PT.useSs [] [.forS (some (.varDef [vI "i" false] [.intLit 0])) (.boolLit true) none [], .print [.varEval (vI "i" false)]] == false
-- the model rejects such programs
#guard (accepted "print(a)\na := 1\n").isNone
#guard (accepted "if true {\n\ta := 1\n}\nprint(a)\n").isNone
#guard (accepted "func f() {\n\tprint(l)\n}\nl := 1\nf()\n").isNone
#guard (accepted "for i := 0; i < 1; i++ {\n}\nprint(i)\n").isNone
#guard (accepted "for i, v := range \"ab\" {\n}\nprint(v)\n").isNone

-- redefinition: the model rejects what the theorem excludes and accepts what it allows
#guard (accepted "a := 1\na := 2\n").isNone
#guard (accepted "a := 1\nvar a int = 2\n").isNone
#guard (accepted "a := 1\nvar a, b int = 2, 3\n").isNone
#guard (accepted "a := 1\nvar b, a = 2, 3\n").isNone
#guard (accepted "a := 1\nb := 2\na, b := 3, 4\n").isNone
#guard (accepted "a := 1\na, b := 3, 4\nprint(a, b)\n").isSome
#guard (accepted "func f(p int) {\n\tp := 1\n}\n").isNone
#guard (accepted "g := 1\nfunc f() {\n\tg := 2\n}\n").isNone
#guard (accepted "g := 1\nfunc f() {\n\tg, h := 2, 3\n\tprint(g, h)\n}\n").isSome
#guard (accepted "func f() {\n}\nfunc f() {\n}\n").isNone
#guard (accepted "func f() {\n}\nfunc g() {\n}\nf()\ng()\n").isSome

end Tsh.C07
