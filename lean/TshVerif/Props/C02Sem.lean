/-
  C02 - Bash target preserves function-call semantics and variable isolation: the semantic theorem.

  `bash_preserves_semantics_with_functions`: for every program of the fragment `fragP` - function definitions at
  top level (any number of parameters and return values, locals, nested calls, calls as arguments, calls of
  earlier functions inside later ones), integers, booleans, strings, `if`/`else if`/`else`, `for` with
  `break`/`continue`, `print`, `panic`, single and multiple assignment from values or from one call - the emitted
  script, read by the bash model (positional parameters, `local` with restore on return, return registers,
  `exit`), does what the source semantics says: same printed lines, same way of ending.  The proof is by
  induction over the program with the table of functions translated so far as invariant: each function body is
  proved once, in its own naming context, against *every* later state of the program (`BodySim`), using a
  frame property of the bash model (a function's lines assign only its own prefixed names, globals, the return
  registers and its loop flags - so a caller's locals and temporaries survive any call).

  Not in the fragment (left to the execution oracle of the check; TypeShell itself has no recursion - a function
  can be called only after its definition is complete - so define-before-use is no restriction): slices, `len`/string indexing,
  command calls, `switch`, `for range`.
-/
import TshVerif.Lemmas.Sem2Top
import TshVerif.Lemmas.Sem2Det
import TshVerif.Lemmas.Sem2Helpers
namespace Tsh.C02
open Tsh Tsh.Tr Tsh.Bash Tsh.Sem2

/-- **The bash script means what the program means - functions, slices and strings included.**  `k` is the exit
    status (0: the program ran to its end; `panic` ends it with 1), `out` the printed lines.  The script is the
    shebang, the definitions `hcmds` of the helper routines it needs and the translated program `cmds`.  `fuel` is
    universally quantified: every terminating run of the source semantics, no bound on program size, call depth,
    iterations, number or length of slices. -/
theorem bash_preserves_semantics_with_functions (p : Program) (hf : Src.fragP [] p = true) (ls : List Line)
    (hc : compile p = .ok ls) :
    ∃ hcmds cmds : List Cmd, ls = .shebang :: (flats hcmds ++ flats cmds) ∧
      ∀ fuel k out, Src.runProgram fuel p = some (k, out) →
        ∃ (o' : Out) (m' : Cfg), ExecCmds (hcmds ++ cmds) Cfg.init o' m' ∧ ((o' = .normal ∧ k = 0) ∨ o' = .exit k) ∧ m'.out = out := by
  unfold compile at hc
  split at hc
  · rename_i u s hrun
    simp only [Res.ok.injEq] at hc
    unfold evalProgram at hrun
    obtain ⟨_, s1, h1, hrun⟩ := bind_ok hrun
    obtain ⟨_, s2, h2, h3⟩ := bind_ok hrun
    have e1 : s1 = { ({} : St) with startCode := [.shebang] } := by
      have : addStartLine .shebang ({} : St) = .ok ((), s1) := h1
      simp [addStartLine, Tr.modify] at this
      exact this.symm
    have e3 : s = s2 := by
      have : (pure () : BM Unit) s2 = .ok (u, s) := h3
      exact (pure_ok this).2
    have h01 : s1.funcs = [] := by rw [e1]
    obtain ⟨cmds, n, m, fc, rq, e2, sim⟩ := prog_semF p [] s1 s2 hf trivial (fun e he => by cases he) List.nodup_nil h01
      (fun e he => by cases he) h2
    refine ⟨helperCmds s2, cmds, ?_, ?_⟩
    · rw [← hc, e3, flats_helperCmds]
      have hsc : s2.startCode = [.shebang] := by rw [e2, e1]; rfl
      have hcd : s2.code = (flats cmds).reverse := by rw [e2, e1]; simp [adv3, reqSt]
      simp [dumpLines, hsc, hcd]
    · intro fuel k out hs
      unfold Src.runProgram at hs
      have hinit : TopInv [] Src.SCfg.init Cfg.init :=
        ⟨⟨rfl, rfl, fun x v hx => by simp [Src.SCfg.init] at hx, (fun hin => by cases hin), ⟨rfl, fun _ => rfl, fun _ _ => rfl⟩⟩, rfl, rfl⟩
      have pre := exec_helperCmds s2 Cfg.init
      have hstart : ({ Cfg.init with funs := helperFuns s2 ++ Cfg.init.funs } : Cfg) = addH (helperFuns s2) Cfg.init := by
        simp [addH, Cfg.init]
      rw [hstart] at pre
      have fin : ∀ {o' m'}, ExecCmds cmds Cfg.init o' m' → ExecCmds (helperCmds s2 ++ cmds) Cfg.init o' (addH (helperFuns s2) m') :=
        fun ex => execCmds_append pre (execCmds_addH (helperFuns s2) ex)
      split at hs
      · rename_i c' hs'
        simp only [Option.some.injEq, Prod.mk.injEq] at hs
        obtain ⟨rfl, rfl⟩ := hs
        obtain ⟨m', o', ex, hor, hout⟩ := sim fuel Src.SCfg.init .normal c' hs' Cfg.init hinit
        have : o' = .normal := (outRel_normal hor).mpr rfl
        exact ⟨o', _, fin ex, Or.inl ⟨this, rfl⟩, hout.symm⟩
      · rename_i k' c' hs'
        simp only [Option.some.injEq, Prod.mk.injEq] at hs
        obtain ⟨rfl, rfl⟩ := hs
        obtain ⟨m', o', ex, hor, hout⟩ := sim fuel Src.SCfg.init (.exit k') c' hs' Cfg.init hinit
        have : o' = .exit k' := by cases o' <;> simp [OutRel] at hor ⊢; exact hor.symm
        exact ⟨o', _, fin ex, Or.inr this, hout.symm⟩
      · simp at hs
  · simp at hc
  · simp at hc

/-- **The outcome is unique, and it is the one the executable bash model computes**: the relation is
    deterministic and the interpreter `execCmds` - the function run next to /bin/bash on the same scripts in every
    check - is sound for it. -/
theorem bash_model_with_functions_outcome_unique (p : Program) (hf : Src.fragP [] p = true) (ls : List Line)
    (hc : compile p = .ok ls) :
    ∃ cmds : List Cmd, ls = .shebang :: flats cmds ∧
      ∀ f1 f2 k out o2 c2, Src.runProgram f1 p = some (k, out) → execCmds f2 cmds Cfg.init = some (o2, c2) →
        ((o2 = .normal ∧ k = 0) ∨ o2 = .exit k) ∧ out = c2.out := by
  obtain ⟨hcmds, cmds, e, sem⟩ := bash_preserves_semantics_with_functions p hf ls hc
  refine ⟨hcmds ++ cmds, by rw [e, flats_append], ?_⟩
  intro f1 f2 k out o2 c2 h1 h2
  obtain ⟨o', m', ex, ho, eo⟩ := sem f1 k out h1
  obtain ⟨e1, e2⟩ := exec_agrees h2 ex
  subst e1 e2
  exact ⟨ho, eo.symm⟩

/-- the hypotheses are satisfiable and the conclusion is about real behaviour: two functions, the second calling
    the first with a call as argument, a local that shadows a global, two return values -/
def semSample : Program :=
  let vi (n : String) (g : Bool) : Var := ⟨n, ⟨.int, false⟩, g, false⟩
  let int : ValueType := ⟨.int, false⟩
  [.varDef [vi "g" true] [.intLit 10],
   .funcDef "add" false [int] [vi "a" false, vi "b" false]
      [.varDef [vi "t" false] [.binary "+" (.varEval (vi "a" false)) (.varEval (vi "b" false))],
       .assign [vi "g" true] [.binary "+" (.varEval (vi "g" true)) (.intLit 1)],
       .ret [.varEval (vi "t" false)]],
   .funcDef "two" false [int, int] [vi "a" false]
      [.varDef [vi "t" false] [.call "add" [int] [.call "add" [int] [.varEval (vi "a" false), .intLit 1], .varEval (vi "a" false)]],
       .ret [.varEval (vi "t" false), .varEval (vi "a" false)]],
   .varDefCall [vi "x" true, vi "y" true] (.call "two" [int, int] [.intLit 5]),
   .print [.varEval (vi "x" true), .varEval (vi "y" true), .varEval (vi "g" true)]]

example : Src.fragP [] semSample = true := by decide
#guard Src.runProgram 100 semSample == some (0, ["11 5 12"])
#guard (match compile semSample with | .ok ls => Tsh.Sem2.run 100 ls == some (.normal, ["11 5 12"]) | _ => false)

end Tsh.C02
