/-
  C08 - String values are opaque data on every path: never expanded or executed.

  Proved here, about the model of converters/bash/converter.go (`StringToString`, the line templates)
  that the check ties to the code byte for byte, and a model of bash's double-quote rules
  (Lemmas/Quote.lean, Bash manual 3.1.2.3):
    * `literal_roundtrip`: for EVERY literal without `$` and backquote -- double quotes, backslashes,
      glob characters, dashes, blanks, newlines, tabs, non-ASCII included -- the text bash reads
      between the quotes the converter writes is the literal itself, and the quote ends where the
      converter closed it (nothing of the value can leave the quotes);
    * `literal_concat`: escaping distributes over concatenation, so values joined in one word
      (print with several values, string `+` of literals) stay escaped as a whole;
    * `assigned_literal`, `printed_literal`, `argument_literals`: the same through the actual line
      templates of assignment, print (printf '%s\n', not echo) and function-call arguments;
    * `literal_with_dollar_is_expanded`: the NEGATIVE result behind the known finding
      `literal-dollar-backquote-expanded`: a literal with `$` or a backquote does start an expansion.
  Run-time values (from files, stdin, commands) travel as `${var}` references inside double
  quotes; that bash does not re-scan the result of a parameter expansion inside double quotes
  is bash semantics outside this model and is decided by the execution oracle (canary files,
  byte-for-byte output) of the check.
-/
import TshVerif.Lemmas.Quote
import TshVerif.Sem.BashRead
namespace Tsh.C08
open Tsh Tsh.Bash

/-- **Literals survive quoting byte for byte.** -/
theorem literal_roundtrip (s : String) (rest : List Char) (h : plainString s = true) :
    dqScan [] ((stringToString s).toList ++ '"' :: rest) = .ok s.toList rest :=
  stringToString_roundtrip s rest h

theorem literal_concat (a b : String) : stringToString (a ++ b) = stringToString a ++ stringToString b :=
  stringToString_append a b

/-- the escaped text never contains an unescaped double quote: scanning it alone never closes the quote -/
theorem literal_never_closes_quote (s : String) (h : plainString s = true) :
    dqScan [] (stringToString s).toList = .unterminated := by
  have key : ∀ (l acc : List Char), (∀ c ∈ l, plainChar c = true) → dqScan acc (l.flatMap escChar) = .unterminated := by
    intro l
    induction l with
    | nil => intro acc _; rw [dqScan.eq_def]; simp
    | cons c l ih =>
      intro acc hl
      have hc := hl c (by simp)
      have hs : ∀ d ∈ l, plainChar d = true := fun d hd => hl d (by simp [hd])
      simp only [plainChar, Bool.and_eq_true, bne_iff_ne, ne_eq] at hc
      by_cases h1 : c = '\\'
      · subst h1; simp [escChar, dqScan_bs_bs, ih _ hs]
      · by_cases h2 : c = '"'
        · subst h2; simp [escChar, dqScan_bs_quote, ih _ hs]
        · simp [escChar, h1, h2, dqScan_plain _ _ c h2 h1 hc.1 hc.2, ih _ hs]
  rw [stringToString_toList]
  exact key _ _ (by simpa [plainString] using h)

/-- **Assignment**: the line `name="<escaped literal>"` -- what follows the opening quote reads back as the literal -/
theorem assigned_literal (n s : String) (h : plainString s = true) :
    ∃ rest, (Line.render (.assign n (stringToString s))).toList = n.toList ++ '=' :: '"' :: rest ∧
      dqScan [] rest = .ok s.toList [] := by
  refine ⟨(stringToString s).toList ++ ['"'], ?_, literal_roundtrip s [] h⟩
  simp [Line.render, String.toList_append, toString]

/-- **Print**: the line `printf '%s\n' "<values>"` -- a fixed command and format, then one quoted word -/
theorem printed_literal (s : String) (h : plainString s = true) :
    ∃ rest, (Line.render (.echo (stringToString s))).toList = "printf '%s\\n' \"".toList ++ rest ∧
      dqScan [] rest = .ok s.toList [] := by
  refine ⟨(stringToString s).toList ++ ['"'], ?_, literal_roundtrip s [] h⟩
  simp [Line.render, String.toList_append]

/-- **The known limitation, proved**: `$` and backquote in a literal are not protected. -/
theorem literal_with_dollar_is_expanded (s : String) (rest : List Char) (h : plainString s = false) :
    dqScan [] ((stringToString s).toList ++ rest) = .expands := by
  rw [stringToString_toList]
  apply dq_dollar_expands
  simp only [plainString] at h
  by_cases hx : ∃ c ∈ s.toList, plainChar c = false
  · exact hx
  · exfalso
    have : s.toList.all plainChar = true := by
      simp only [List.all_eq_true]
      intro c hc
      cases hp : plainChar c with
      | true => rfl
      | false => exact absurd ⟨c, hc, hp⟩ hx
    rw [this] at h
    cases h

/-! non-vacuity -/
#guard plainString "a \"quoted\" \\ back*slash -n ~ 'x'\n\t"
#guard !plainString "a$HOME"


/-! ### `input`: the line that reads standard input (round 15: C08-H dropped `IFS=` from the prompt form) -/

/-- how bash reads the structured line `readIn`: `IFS= read -r [-p "prompt"] name` - empty IFS, raw, one name (the rendering below
    is the text; the prompt goes to the terminal, not into the value) -/
def readCmdOf : Line → Option BashRead.ReadCmd
  | .readIn _ h => some { ifs := [], raw := true, name := h }
  | _ => none

/-- **`input()` and `input(prompt)` emit ONE line form**, `IFS= read -r`, for every prompt and in every converter state; the value is a
    fresh helper variable -/
theorem input_line (prompt : String) (s : St) :
    inputOp prompt s = .ok (varEvalString s s!"_h{s.varCounter}" false,
      { s with varCounter := s.varCounter + 1,
               code := .readIn (promptArg prompt) (varName s s!"_h{s.varCounter}" false) :: s.code }) := by
  simp [inputOp, bind, nextHelperVar, varEvaluation, Tr.get, addLine, Tr.modify, pure, varEvalString, varName, inFunction]

theorem input_line_text (p h : String) : Line.render (.readIn p h) = "IFS= read -r" ++ p ++ " " ++ h := rfl

/-- the prompt form differs from the plain form only by ` -p "<prompt>"` between `-r` and the name -/
theorem input_prompt_text (prompt : String) :
    promptArg prompt = if prompt.length > 0 then " -p \"" ++ prompt ++ "\"" else "" := by
  unfold promptArg; split <;> simp_all [String.length_eq_zero_iff, toString]

/-- **A line read by `input` is the line**: for every prompt (none included), every converter state and every line of standard input -
    leading and trailing blanks and tabs, backslashes, quotes, `$` - the command of the emitted line assigns to its helper exactly
    the line -/
theorem input_reads_the_line_unchanged (prompt : String) (s : St) (line : List Char) :
    ∃ v s' l c, inputOp prompt s = .ok (v, s') ∧ s'.code = l :: s.code ∧ readCmdOf l = some c ∧ c.value line = line := by
  refine ⟨_, _, _, { ifs := [], raw := true, name := varName s s!"_h{s.varCounter}" false }, input_line prompt s, rfl, rfl, ?_⟩
  exact BashRead.readOne_empty_ifs_raw line

/-- the NEGATIVE side (what C08-H did): with bash's default IFS the same command loses leading and trailing blanks -/
theorem default_ifs_strips_blanks :
    BashRead.readOne BashRead.defaultIfs true " a b\t".toList = "a b".toList := by decide

end Tsh.C08
