import TshVerif.Model.ConvBash
namespace Tsh.C08
open Tsh Tsh.Bash

end Tsh.C08
