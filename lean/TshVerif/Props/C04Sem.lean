/-
  C04 - Operands are evaluated exactly once, in source order, conditions eagerly: the semantic side.

  Evaluation order and multiplicity are observable: an operand that is a call of a function which prints (a "tracer")
  leaves a line in the output each time it is evaluated.  For the programs of the fragment `Sem2.Src.fragP` the
  emitted script prints exactly the lines the source semantics prints, in the same order
  (`C02.bash_preserves_semantics_with_functions`).  The source semantics `Sem2/Src` evaluates the operands of every
  operator, call, slice literal, index, subscript, `print`, `return`, assignment once and from left to right, both
  operands of `&&` / `||` always, all conditions of an if / else-if chain before the first branch is chosen, and the
  condition of a loop before every iteration (what it does with `s[a:b]`: `a`, `b`, then `s` - `s` is a variable or a
  literal there).  So for these programs order and multiplicity of operand evaluation in the script are those of the
  source semantics - for all programs of the fragment, not for the sampled ones.
-/
import TshVerif.Props.C02Sem
namespace Tsh.C04
open Tsh Tsh.Tr Tsh.Bash Tsh.Sem2

/-- **Every effect of operand evaluation appears in the script's output as often and in the order the source
    semantics produces it.** -/
theorem bash_evaluates_operands_as_the_source_does (p : Program) (hf : Src.fragP [] p = true) (ls : List Line)
    (hc : compile p = .ok ls) :
    ∃ hcmds cmds : List Cmd, ls = .shebang :: (flats hcmds ++ flats cmds) ∧
      ∀ fuel k out, Src.runProgram fuel p = some (k, out) →
        ∃ (o' : Out) (m' : Cfg), ExecCmds (hcmds ++ cmds) Cfg.init o' m' ∧ ((o' = .normal ∧ k = 0) ∨ o' = .exit k) ∧ m'.out = out :=
  C02.bash_preserves_semantics_with_functions p hf ls hc

/-- tracers: `t(n)` prints `n` and returns it.  Both operands of `||` are evaluated although the first is true; the
    conditions of the whole chain are evaluated before any branch runs; arguments go left to right. -/
def tracerSample : Program :=
  let int : ValueType := ⟨.int, false⟩
  let bool : ValueType := ⟨.bool, false⟩
  let v (n : String) (vt : ValueType) (g : Bool) : Var := ⟨n, vt, g, false⟩
  let t (n : Int) : Expr := .call "t" [int] [.intLit n]
  [.funcDef "t" false [int] [v "n" int false] [.print [.varEval (v "n" int false)], .ret [.varEval (v "n" int false)]],
   .funcDef "add" false [int] [v "a" int false, v "b" int false]
      [.ret [.binary "+" (.varEval (v "a" int false)) (.varEval (v "b" int false))]],
   .ifS (.logical "||" (.compare "==" (t 1) (.intLit 1)) (.compare "==" (t 2) (.intLit 0)))
      [.print [.call "add" [int] [t 5, t 6]]]
      [(.compare "==" (t 3) (.intLit 3), [.print [.intLit 0]])]
      []]

example : Src.fragP [] tracerSample = true := by decide
#guard Src.runProgram 100 tracerSample == some (0, ["1", "2", "3", "5", "6", "11"])
#guard (match compile tracerSample with | .ok ls => Tsh.Sem2.run 100 ls == some (.normal, ["1", "2", "3", "5", "6", "11"]) | _ => false)

end Tsh.C04
