import TshVerif.Model.ConvBash
namespace Tsh.C18
open Tsh Tsh.Bash

end Tsh.C18
