/-
  C18 - Command calls get exactly the given arguments; pipes and capture are exact.

  Proved here, about the model of converters/bash/converter.go (`AppCall`) that the check ties to the
  code byte for byte, and a model of bash's word splitting and double-quote rules (Lemmas/Quote.lean):
    * `command_words`: for every bare program name and every list of literal argument texts without
      `$`/backquote, the emitted command line is read back by bash as exactly `name, a1, …, an`
      (n arguments, each byte for byte: empty strings, blanks, quotes, backslashes, globs, dashes);
    * `pipeline_in_order`: the programs of a chain are joined left to right by ` | `;
    * `capture_lines`: a used call chain emits exactly `h1="$(chain)"` directly followed by
      `h2="$?"`, returns `${h1}`, "" and `${h2}`, and emits no printing line; an unused chain emits
      the chain itself.
  What `$( )`, `$?` and `|` mean to bash, and literals with `$`/backquote (known finding of C08), are
  outside the theorems: the argv-probe oracle of the check decides them on executions.
-/
import TshVerif.Lemmas.Quote
import TshVerif.Lemmas.BashStmt
namespace Tsh.C18
open Tsh Tsh.Tr Tsh.Bash

/-- the text of one program call: name, then every argument between double quotes -/
def callText (c : String × List String) : String :=
  "\"" ++ stringToString c.1 ++ "\"" ++ (if (c.2.map fun a => "\"" ++ a ++ "\"").isEmpty then "" else " ") ++ " ".intercalate (c.2.map fun a => "\"" ++ a ++ "\"")

theorem appCallString_eq (calls : List (String × List String)) : appCallString calls = " | ".intercalate (calls.map callText) := by
  unfold appCallString callText
  congr 1

/-- **Pipes connect the programs in source order.** -/
theorem pipeline_in_order (c1 c2 : String × List String) (cs : List (String × List String)) :
    appCallString (c1 :: c2 :: cs) = callText c1 ++ " | " ++ appCallString (c2 :: cs) := by
  simp [appCallString_eq]

theorem intercalate_blank : ∀ (x : List Char) (xs : List (List Char)),
    [' '].intercalate (x :: xs) = x ++ xs.flatMap (' ' :: ·) := by
  intro x xs
  induction xs generalizing x with
  | nil => simp [List.intercalate]
  | cons y ys ih =>
    have := ih y
    simp [List.intercalate, List.intersperse] at this ⊢
    simp [this]

theorem callText_toList (name : String) (args : List String) :
    (callText (name, args)).toList = '"' :: ((stringToString name).toList ++ '"' :: quotedRaw (args.map String.toList)) := by
  have h2 : ("\"" : String).toList = ['"'] := rfl
  cases args with
  | nil => simp [callText, quotedRaw, String.toList_append, h2]
  | cons a rest =>
    simp only [callText, List.map_cons, List.isEmpty_cons, Bool.false_eq_true, if_false, String.toList_append,
      String.toList_intercalate]
    have h1 : (" " : String).toList = [' '] := rfl
    rw [h1, intercalate_blank]
    simp [quotedRaw, String.toList_append, h2, List.flatMap_cons, List.map_map]
    induction rest with
    | nil => simp
    | cons b rest ih => simp [String.toList_append, h2, ih]

/-- **Exactly the given program and arguments.**  The program NAME is written like an argument (fix: a path with a blank had
    been split by the shell), so the line is read back as the name and the arguments for every name and every argument without
    `$` / backquote - blanks, quotes, backslashes, glob characters, leading dashes included. -/
theorem command_words (name : String) (args : List String) (hn : plainString name = true) (ha : ∀ a ∈ args, plainString a = true) :
    shSplit false none (appCallString [(name, args.map stringToString)]).toList = some (name.toList :: args.map String.toList) := by
  have e : appCallString [(name, args.map stringToString)] = callText (name, args.map stringToString) := by
    simp [appCallString_eq]
  rw [e, callText_toList, shSplit.eq_def]
  simp only [show ('"' == ' ') = false by decide, Bool.false_eq_true, if_false, beq_self_eq_true, if_true, Option.getD_none]
  have hp : ∀ c ∈ name.toList, plainChar c = true := by simpa [plainString] using hn
  rw [stringToString_toList, shSplit_inq [] _ name.toList _ (by simpa using dq_roundtrip name.toList [] _ hp)]
  have := shSplit_args (args.map String.toList) name.toList (by
    intro a ha'
    simp at ha'
    obtain ⟨s, hs, rfl⟩ := ha'
    have := ha s hs
    simpa [plainString] using this)
  simpa [List.map_map, Function.comp_def, stringToString_toList] using this

/-- **Capture**: a used chain assigns the output and then the exit status, and prints nothing. -/
theorem capture_lines (cs : String) (s : St) :
    appCallWith cs true s =
      .ok ([varEvalString s s!"_h{s.varCounter}" false, "", varEvalString s s!"_h{s.varCounter + 1}" false],
           { s with varCounter := s.varCounter + 2,
                    code := .assign (varName s s!"_h{s.varCounter + 1}" false) "$?" ::
                            .assign (varName s s!"_h{s.varCounter}" false) s!"$({cs})" :: s.code }) := by
  simp [appCallWith, bind, nextHelperVar, varAssignment, varEvaluation, Tr.get, addLine, Tr.modify, pure,
    varEvalString, varName, inFunction]

/-- an unused chain is emitted as a command of its own -/
theorem uncaptured_line (cs : String) (s : St) :
    appCallWith cs false s = .ok (["", "", "0"], { s with code := .appCall cs :: s.code }) := by
  simp [appCallWith, bind, addLine, Tr.modify, pure]

/-! non-vacuity: a concrete command with an empty argument, blanks, quotes, a backslash and a glob -/
#guard shSplit false none (appCallString [("printf", ["".toList, "a b".toList, "x\"y\\z".toList, "*".toList, "-n".toList].map
          fun a => stringToString (String.ofList a))]).toList
        == some ["printf".toList, "".toList, "a b".toList, "x\"y\\z".toList, "*".toList, "-n".toList]

end Tsh.C18
