import TshVerif.Model.ConvBatch
namespace Tsh.C05
open Tsh Tsh.Batch

end Tsh.C05
