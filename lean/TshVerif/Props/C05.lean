/-
  C05 - Batch target preserves the same program semantics under cmd.exe's rules.

  Proved here, about the model of transpiler.go + converters/batch/converter.go (Model/ConvBatch.lean, tied
  to the code by byte-for-byte comparison of every emitted Batch script) and for EVERY program -- no
  hypothesis on the AST:
    * `every_statement_is_neutral`: every statement leaves the parenthesis depth of the emitted text and
      the heights of the four construct stacks (`ifs`, `fors`, `endLabels`, `funcs`) exactly where they
      were -- each construct closes what it opens and pops what it pushes (the state of the anchor:
      "two live constructs sharing a label" needs a stack that is out of step);
    * `construct_stacks_empty_at_end`: after a whole program all four stacks are empty;
    * `parentheses_balanced`: in every emitted script the number of block-opening lines equals the
      number of block-closing lines, helper routines included;
    * `label_allocation_if/_for`: `ifStart` pushes the label `_i<ifCounter>` and increments the counter, `forStart`
      pushes `_f<forCounter>` / `_e<forCounter>` and increments the counter: a label number is handed out once.
  What cmd.exe does with the text (label search, percent and bang expansion, IF, call frames, set /A) is not a
  theorem: it is the cmd model of the check (lib/cmdsim.py, calibrated on the suite), which executes the
  script of every generated program and compares with the 32-bit reference result.
-/
import TshVerif.Lemmas.BatchGrade
namespace Tsh.C05
open Tsh Tsh.Tr Tsh.Batch

/-- **Every statement closes what it opens and pops what it pushes** (any weighted sum of depth and stack heights is unchanged). -/
theorem every_statement_is_neutral (c : Coef) (body : List Stmt) (s s' : St) (u : Unit) (h : evalStmts conv body s = .ok (u, s')) :
    mu c s' = mu c s := by
  have := evalStmts_neutral c body s u s' h
  simpa using this

theorem final_state (p : Program) (u : Unit) (s : St) (h : evalProgram conv p {} = .ok (u, s)) :
    depthCount s = 0 ∧ s.ifs = [] ∧ s.fors = [] ∧ s.endLabels = [] ∧ s.funcs = [] := by
  have h1 := program_measure ⟨1, 0, 0, 0, 0⟩ p u s h
  have h2 := program_measure ⟨0, 1, 0, 0, 0⟩ p u s h
  have h3 := program_measure ⟨0, 0, 1, 0, 0⟩ p u s h
  have h4 := program_measure ⟨0, 0, 0, 1, 0⟩ p u s h
  have h5 := program_measure ⟨0, 0, 0, 0, 1⟩ p u s h
  simp only [mu, Int.one_mul, Int.zero_mul, Int.add_zero, Int.zero_add] at h1 h2 h3 h4 h5
  refine ⟨h1, ?_, ?_, ?_, ?_⟩
  · exact List.eq_nil_of_length_eq_zero (by omega)
  · exact List.eq_nil_of_length_eq_zero (by omega)
  · exact List.eq_nil_of_length_eq_zero (by omega)
  · exact List.eq_nil_of_length_eq_zero (by omega)

/-- **All construct stacks are empty when the program has been emitted.** -/
theorem construct_stacks_empty_at_end (p : Program) (u : Unit) (s : St) (h : evalProgram conv p {} = .ok (u, s)) :
    s.ifs = [] ∧ s.fors = [] ∧ s.endLabels = [] ∧ s.funcs = [] := (final_state p u s h).2

/-- **Balanced parentheses in every emitted Batch script.** -/
theorem parentheses_balanced (p : Program) (ls : List BLine) (h : compile p = .ok ls) : sumD ls = 0 := by
  unfold compile at h
  split at h
  · rename_i u s hs
    simp at h
    subst h
    have hd := (final_state p u s hs).1
    unfold dumpLines
    simp only [sumD_append, sumD_reverse, sumD_flatten_reverse, sumD_helperLines]
    simp only [depthCount] at hd
    have : sumD [BLine.label "end", BLine.raw "endlocal & exit /B %_e%"] = 0 := rfl
    omega
  · simp at h
  · simp at h

/-- **Label numbers are handed out once**: the allocators push the label of the current counter and increment it. -/
theorem label_allocation_if (c : String) (s s' : St) (u : Unit) (h : ifStartOp c s = .ok (u, s')) :
    s'.ifs = s!"_i{s.ifCounter}" :: s.ifs ∧ s'.ifCounter = s.ifCounter + 1 := by
  unfold ifStartOp at h
  obtain ⟨_, s1, h1, h2⟩ := bbind_ok h
  simp [Tr.modify] at h1
  subst h1
  obtain ⟨_, hi, _, _, _, hc, _⟩ := addLine_eff h2
  exact ⟨hi, hc⟩

theorem label_allocation_for (s s' : St) (u : Unit) (h : forStartOp s = .ok (u, s')) :
    s'.fors = s!"_f{s.forCounter}" :: s.fors ∧ s'.endLabels = s!"_e{s.forCounter}" :: s.endLabels ∧ s'.forCounter = s.forCounter + 1 := by
  unfold forStartOp at h
  obtain ⟨_, s1, h1, h⟩ := bbind_ok h
  obtain ⟨_, s2, h2, h⟩ := bbind_ok h
  obtain ⟨l, s3, h3, h⟩ := bbind_ok h
  obtain ⟨_, s4, h4, h5⟩ := bbind_ok h
  simp [Tr.modify] at h1
  subst h1
  simp [Tr.get] at h2
  obtain ⟨_, rfl⟩ := h2
  simp [currentFor] at h3
  obtain ⟨_, rfl⟩ := h3
  obtain ⟨_, _, f4, e4, _, _, c4⟩ := addLine_eff h4
  obtain ⟨_, _, f5, e5, _, _, c5⟩ := addLine_eff h5
  refine ⟨?_, ?_, ?_⟩ <;> simp [f5, f4, e5, e4, c5, c4]

end Tsh.C05
