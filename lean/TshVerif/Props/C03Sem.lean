/-
  C03 - Bash target preserves slice and string operation semantics: the semantic theorem.

  The fragment `Sem2.Src.fragP` of `C02.bash_preserves_semantics_with_functions` contains slice literals, element
  reads and element assignment (with the fill of a gap by the zero value), `len` of slices and strings, `copy`,
  string subscripts `s[i]`, `s[a:b]`, `s[a:]`, `s[:b]`, slices as arguments and results of functions, slices that are
  shared between variables (a slice value is a reference, as in Go).  So the theorem below is that theorem, stated
  for this property: what the source semantics says about such a program is what the bash model says about the
  emitted script.  The bash model takes the three helper routines `_sah`, `_sch`, `_ssh` as primitives
  (`Sem2.stepSimple`, cases `sah`, `sahInit`, `sch`, `ssh`) - their text is fixed (`sahBodyLines` ...), and what
  /bin/bash does with that text is observed in every run of the check, on the same scripts.

  Strings are ASCII here (`plainLit`), so a character is a byte and an index means the same in Go, bash and the model.
-/
import TshVerif.Props.C02Sem
namespace Tsh.C03
open Tsh Tsh.Tr Tsh.Bash Tsh.Sem2

/-- **Slices and strings mean in bash what they mean in the program.** -/
theorem bash_preserves_slice_and_string_semantics (p : Program) (hf : Src.fragP [] p = true) (ls : List Line)
    (hc : compile p = .ok ls) :
    ∃ hcmds cmds : List Cmd, ls = .shebang :: (flats hcmds ++ flats cmds) ∧
      ∀ fuel k out, Src.runProgram fuel p = some (k, out) →
        ∃ (o' : Out) (m' : Cfg), ExecCmds (hcmds ++ cmds) Cfg.init o' m' ∧ ((o' = .normal ∧ k = 0) ∨ o' = .exit k) ∧ m'.out = out :=
  C02.bash_preserves_semantics_with_functions p hf ls hc

/-- element assignment is Go's assignment inside the slice, and beyond its end it appends after filling the gap -/
theorem sahSet_inside {α : Type} (l : List α) (i : Nat) (v d : α) (h : i < l.length) : sahSet l i v d = l.set i v := by
  simp [sahSet, h]

theorem sahSet_length {α : Type} (l : List α) (i : Nat) (v d : α) : (sahSet l i v d).length = max l.length (i + 1) := by
  simp only [sahSet]
  split
  · simp; omega
  · simp; omega

/-- `copy` overwrites from the front and never shortens the destination -/
theorem copyInto_length {α : Type} (src dst : List α) : (copyInto src dst).length = max src.length dst.length := by
  simp [copyInto]; omega

/-- the hypotheses are satisfiable and the conclusion is about real behaviour: a slice built by a function, shared
    between two variables, extended through one of them past its end, and a substring of a concatenation -/
def sliceSample : Program :=
  let int : ValueType := ⟨.int, false⟩
  let ints : ValueType := ⟨.int, true⟩
  let str : ValueType := ⟨.string, false⟩
  let v (n : String) (vt : ValueType) (g : Bool) : Var := ⟨n, vt, g, false⟩
  [.funcDef "mk" false [ints] [v "a" int false]
      [.ret [.sliceNew .int [.varEval (v "a" int false), .binary "*" (.varEval (v "a" int false)) (.intLit 2)]]],
   .varDefCall [v "s" ints true] (.call "mk" [ints] [.intLit 3]),
   .varDef [v "t" ints true] [.varEval (v "s" ints true)],
   .sliceAssign (v "t" ints true) (.intLit 4) (.intLit 9),
   .varDef [v "w" str true] [.binary "+" (.strLit "ab") (.strLit "cde")],
   .print [.len (.varEval (v "s" ints true)), .sliceEval (.varEval (v "s" ints true)) (.intLit 1) .int,
           .sliceEval (.varEval (v "s" ints true)) (.intLit 3) .int, .sliceEval (.varEval (v "s" ints true)) (.intLit 4) .int,
           .substr (.varEval (v "w" str true)) (.intLit 1) (some (.binary "-" (.intLit 4) (.intLit 1))), .len (.varEval (v "w" str true))]]

example : Src.fragP [] sliceSample = true := by decide
#guard Src.runProgram 100 sliceSample == some (0, ["5 6 0 9 bcd 5"])
#guard (match compile sliceSample with | .ok ls => Tsh.Sem2.run 100 ls == some (.normal, ["5 6 0 9 bcd 5"]) | _ => false)

end Tsh.C03
