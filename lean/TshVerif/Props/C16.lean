/-
  C16 - Every emitted script is well-formed for its interpreter.

  Proved here (bash part), about the model of transpiler.go + converters/bash/converter.go that the
  check ties to the code byte for byte, for EVERY well-formed AST:
    * `script_shape`: after the shebang and the helper routines the script is a sequence of the grammar
      `Shape .blk` (Lemmas/BashShape.lean): every `if … then` has a NON-EMPTY body, optional
      `elif`/`else` parts with non-empty bodies and its own `fi`; every loop is `_fv<n>=`,
      `while true; do`, an optional guarded increment with a non-empty body, the condition
      statements, the exit test, a non-empty body, `done`; every function is `name() {`, the
      parameter copies, a non-empty body, `}`  (an empty compound command is what `bash -n` rejects;
      an empty block gets the `:` no-op);
    * `script_balanced`: nesting depth returns to 0 (openers and closers match up);
    * `bodies_start_with_a_command`: a body never starts with a closer.
  Batch: balanced parentheses and empty construct stacks at the end for every program (theorems below);
  labels, helper inclusion, jump targets and `bash -n` itself are decided by the structural oracles of the check.
-/
import TshVerif.Props.C01
import TshVerif.Props.C05
namespace Tsh.C16
open Tsh Tsh.Tr Tsh.Bash

/-- **The script follows the block grammar.** -/
theorem script_shape (p : Program) (hw : wfStmts p = true) (ls : List Line) (h : compile p = .ok ls) :
    ∃ (st : St) (body : List Line) (n : Nat), ls = .shebang :: (helperLines st ++ body) ∧ Shape .blk 0 n body :=
  C01.compile_shape p hw ls h

/-- **Balanced compound commands.** -/
theorem script_balanced (p : Program) (hw : wfStmts p = true) (ls : List Line) (h : compile p = .ok ls) :
    ∃ (st : St) (body : List Line), ls = .shebang :: (helperLines st ++ body) ∧ depthSum body = 0 := by
  obtain ⟨st, body, n, hl, hs⟩ := C01.compile_shape p hw ls h
  exact ⟨st, body, hl, hs.balanced⟩

/-- a command sequence of the grammar never starts with `fi`, `else`, `elif`, `done` or `}` -/
theorem bodies_start_with_a_command {lo hi : Nat} {l : Line} {rest : List Line} (h : Shape .blk lo hi (l :: rest)) :
    l.isCloser = false := h.head_not_closer rfl l rest rfl

/-- an empty block is emitted as the no-op, never as nothing -/
theorem empty_block_is_nop (s : St) : evalBlock conv [] s = .ok ((), { s with code := .nop :: s.code }) := by
  unfold evalBlock; rfl

/-- **Batch: balanced parentheses** in every emitted script, for every program (C05.parentheses_balanced):
    the number of lines that open a block equals the number of lines that close one, helper routines included. -/
theorem batch_parentheses_balanced (p : Program) (ls : List Batch.BLine) (h : Batch.compile p = .ok ls) : Batch.sumD ls = 0 :=
  C05.parentheses_balanced p ls h

/-- **Batch: no construct is left open**: after the whole program the if-, loop- and function stacks are empty,
    so every `goto` emitted against a pending label has met the line that defines that label. -/
theorem batch_no_construct_left_open (p : Program) (u : Unit) (s : Batch.St) (h : evalProgram Batch.conv p {} = .ok (u, s)) :
    s.ifs = [] ∧ s.fors = [] ∧ s.endLabels = [] ∧ s.funcs = [] :=
  C05.construct_stacks_empty_at_end p u s h

end Tsh.C16
