import TshVerif.Model.ConvBash
import TshVerif.Model.ConvBatch
namespace Tsh.C16
open Tsh

end Tsh.C16
