/-
  C16 - Every emitted script is well-formed for its interpreter.

  Proved here (bash part), about the model of transpiler.go + converters/bash/converter.go that the
  check ties to the code byte for byte, for EVERY well-formed AST:
    * `script_shape`: after the shebang and the helper routines the script is a sequence of the grammar
      `Shape .blk` (Lemmas/BashShape.lean): every `if … then` has a NON-EMPTY body, optional
      `elif`/`else` parts with non-empty bodies and its own `fi`; every loop is `_fv<n>=`,
      `while true; do`, an optional guarded increment with a non-empty body, the condition
      statements, the exit test, a non-empty body, `done`; every function is `name() {`, the
      parameter copies, a non-empty body, `}`  (an empty compound command is what `bash -n` rejects;
      an empty block gets the `:` no-op);
    * `script_balanced`: nesting depth returns to 0 (openers and closers match up);
    * `bodies_start_with_a_command`: a body never starts with a closer;
    * `bash_helpers_defined_when_called` (every program, no hypothesis): a script that calls `_sah`, `_sch` or
      `_ssh` contains the definition of that routine.
  Batch: balanced parentheses and empty construct stacks at the end for every program (theorems below);
  labels, helper inclusion, jump targets and `bash -n` itself are decided by the structural oracles of the check.
-/
import TshVerif.Props.C01
import TshVerif.Props.C05
import TshVerif.Lemmas.BashHelpers
import TshVerif.Lemmas.BatchLabels
namespace Tsh.C16
open Tsh Tsh.Tr Tsh.Bash

/-- **The script follows the block grammar.** -/
theorem script_shape (p : Program) (hw : wfStmts p = true) (ls : List Line) (h : compile p = .ok ls) :
    ∃ (st : St) (body : List Line) (n : Nat), ls = .shebang :: (helperLines st ++ body) ∧ Shape .blk 0 n body :=
  C01.compile_shape p hw ls h

/-- **Balanced compound commands.** -/
theorem script_balanced (p : Program) (hw : wfStmts p = true) (ls : List Line) (h : compile p = .ok ls) :
    ∃ (st : St) (body : List Line), ls = .shebang :: (helperLines st ++ body) ∧ depthSum body = 0 := by
  obtain ⟨st, body, n, hl, hs⟩ := C01.compile_shape p hw ls h
  exact ⟨st, body, hl, hs.balanced⟩

/-- a command sequence of the grammar never starts with `fi`, `else`, `elif`, `done` or `}` -/
theorem bodies_start_with_a_command {lo hi : Nat} {l : Line} {rest : List Line} (h : Shape .blk lo hi (l :: rest)) :
    l.isCloser = false := h.head_not_closer rfl l rest rfl

/-- an empty block is emitted as the no-op, never as nothing -/
theorem empty_block_is_nop (s : St) : evalBlock conv [] s = .ok ((), { s with code := .nop :: s.code }) := by
  unfold evalBlock; rfl

theorem helperLines_plain (st : St) : ∀ l ∈ helperLines st, l.needsSah = false ∧ l.needsSch = false ∧ l.needsSsh = false := by
  intro l hl
  unfold helperLines at hl
  simp only [List.mem_append] at hl
  rcases hl with (hl | hl) | hl
  · split at hl
    · simp [sahBodyLines] at hl; rcases hl with rfl | rfl | rfl | rfl | rfl | rfl | rfl | rfl | rfl <;> simp [Line.needsSah, Line.needsSch, Line.needsSsh]
    · simp at hl
  · split at hl
    · simp [schBodyLines] at hl; rcases hl with rfl | rfl | rfl | rfl | rfl | rfl | rfl | rfl | rfl | rfl | rfl <;> simp [Line.needsSah, Line.needsSch, Line.needsSsh]
    · simp at hl
  · split at hl
    · simp [sshBodyLines] at hl; rcases hl with rfl | rfl | rfl | rfl | rfl | rfl <;> simp [Line.needsSah, Line.needsSch, Line.needsSsh]
    · simp at hl

/-- **Bash: every helper routine that is called is defined** -- for every program (no hypothesis on the AST):
    a script that contains a `_sah` / `_sch` / `_ssh` call contains the definition of that routine. -/
theorem bash_helpers_defined_when_called (p : Program) (ls : List Line) (h : compile p = .ok ls) :
    ((∃ l ∈ ls, l.needsSah = true) → Line.funcStart "_sah" ∈ ls) ∧
    ((∃ l ∈ ls, l.needsSch = true) → Line.funcStart "_sch" ∈ ls) ∧
    ((∃ l ∈ ls, l.needsSsh = true) → Line.funcStart "_ssh" ∈ ls) := by
  unfold compile at h
  split at h
  · rename_i u s hrun
    simp at h
    subst h
    unfold evalProgram at hrun
    obtain ⟨_, s1, h1, hrun⟩ := bind_ok hrun
    obtain ⟨_, s2, h2, h3⟩ := bind_ok hrun
    have e1 : s1 = { ({} : St) with startCode := [.shebang] } := by
      have : addStartLine .shebang ({} : St) = .ok ((), s1) := h1
      simp [addStartLine, Tr.modify] at this
      exact this.symm
    have e3 : s = s2 := by
      have : (pure () : BM Unit) s2 = .ok (u, s) := h3
      exact (pure_ok this).2
    subst e3
    have hs := (evalStmts_hok p).step _ _ _ h2
    obtain ⟨new, hc, hreq⟩ := hs.code
    have hcode : s.code = new := by rw [hc, e1]; simp
    have hstart : s.startCode = [.shebang] := by rw [hs.start, e1]
    have key : ∀ l ∈ dumpLines s, (l.needsSah = true → s.sahReq = true) ∧ (l.needsSch = true → s.schReq = true) ∧ (l.needsSsh = true → s.sshReq = true) := by
      intro l hl
      unfold dumpLines at hl
      simp only [List.mem_append, List.mem_reverse] at hl
      rcases hl with (hl | hl) | hl
      · rw [hstart] at hl; simp at hl; subst hl; simp [Line.needsSah, Line.needsSch, Line.needsSsh]
      · obtain ⟨a, b, c⟩ := helperLines_plain s l hl
        simp [a, b, c]
      · rw [hcode] at hl; exact hreq l hl
    refine ⟨?_, ?_, ?_⟩
    · rintro ⟨l, hl, hn⟩
      have := (key l hl).1 hn
      unfold dumpLines helperLines
      simp [this]
    · rintro ⟨l, hl, hn⟩
      have := (key l hl).2.1 hn
      unfold dumpLines helperLines
      simp [this]
    · rintro ⟨l, hl, hn⟩
      have := (key l hl).2.2 hn
      unfold dumpLines helperLines
      simp [this]
  · simp at h
  · simp at h

/-- **Batch: balanced parentheses** in every emitted script, for every program (C05.parentheses_balanced):
    the number of lines that open a block equals the number of lines that close one, helper routines included. -/
theorem batch_parentheses_balanced (p : Program) (ls : List Batch.BLine) (h : Batch.compile p = .ok ls) : Batch.sumD ls = 0 :=
  C05.parentheses_balanced p ls h

/-- **Batch: no construct is left open**: after the whole program the if-, loop- and function stacks are empty,
    so every `goto` emitted against a pending label has met the line that defines that label. -/
theorem batch_no_construct_left_open (p : Program) (u : Unit) (s : Batch.St) (h : evalProgram Batch.conv p {} = .ok (u, s)) :
    s.ifs = [] ∧ s.fors = [] ∧ s.endLabels = [] ∧ s.funcs = [] :=
  C05.construct_stacks_empty_at_end p u s h

/-! ### Batch: labels and jumps of the control constructs

`if`, `else`, loops, `break` and `continue` are all translated into labels (`:_i3`, `:_f2`, `:_e2`) and `goto`s.
`cmd.exe` resolves a `goto` by scanning the file for the label, so a label defined twice or never defined
does not fail when the script is loaded; it silently jumps to the wrong place or ends the script. -/

/-- **Batch: no construct label is defined twice.**  The labels `:_iN`, `:_fN`, `:_eN` of a generated script are
    pairwise different, for every program, however if-chains, loops and functions are nested. -/
theorem batch_construct_labels_unique (p : Program) (ls : List Batch.BLine) (h : Batch.compile p = .ok ls) :
    (ls.filterMap Batch.clab).Nodup := by
  unfold Batch.compile at h
  split at h
  · rename_i u s hs
    simp at h
    subst h
    have hi := Batch.program_linv p u s hs
    have hn := hi.nd
    obtain ⟨h1, _, h3, _⟩ := batch_no_construct_left_open p u s hs
    rw [h1, h3] at hn
    simp only [List.append_nil] at hn
    exact (Batch.dump_clabels s hi.startPlain).nodup_iff.mpr hn
  · simp at h
  · simp at h

/-- **Batch: every construct jump has its label.**  Each `goto :_iN` / `goto :_fN` / `goto :_eN` in a generated
    script targets a label that some line of the same script defines. -/
theorem batch_construct_jumps_resolve (p : Program) (ls : List Batch.BLine) (h : Batch.compile p = .ok ls) :
    ∀ t ∈ ls.filterMap Batch.cgo, t ∈ ls.filterMap Batch.clab := by
  unfold Batch.compile at h
  split at h
  · rename_i u s hs
    simp at h
    subst h
    have hi := Batch.program_linv p u s hs
    obtain ⟨h1, _, h3, _⟩ := batch_no_construct_left_open p u s hs
    intro t ht
    rw [(Batch.dump_cgotos s hi.startPlain).mem_iff] at ht
    rw [(Batch.dump_clabels s hi.startPlain).mem_iff]
    rcases hi.gt t ht with h | h | h
    · exact h
    · rw [h1] at h; simp at h
    · rw [h3] at h; simp at h
  · simp at h
  · simp at h

/-- what those two lists are in the text of the script -/
example : (Batch.BLine.clabel "_i3").render = ":_i3" ∧ (Batch.BLine.cgoto "_e2").render = "goto :_e2" := ⟨rfl, rfl⟩

end Tsh.C16
