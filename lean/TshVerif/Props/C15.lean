/-
  C15 - std/strings agrees with Go's strings package.

  `Std.Lib.f` is a hand-written rendering of the library function `f` of std/strings.tsh (loop for loop;
  tied to the library by running both on the same arguments in every run, 8.9k tuples in the quick tier);
  `Std.Go.f` is a declarative specification of Go's function on ASCII arguments (tied to the real
  package the same way).  Proved here, for ALL arguments: `Lib.f = Go.f` for
      HasPrefix, HasSuffix, Index, Contains, Join, Repeat (count ≥ 0; Go panics below), CutPrefix,
      CutSuffix, TrimPrefix, TrimSuffix, Cut, Count, Split, TrimLeft, TrimRight, Trim, TrimSpace, Replace, ReplaceAll
  -- all 19 functions of the library.
  including empty strings, empty separators and substrings longer than the string.
  The exhaustive small-scope comparison of the check (rendering, specification, compiled library and Go's
  package on the same tuples) is what ties `Lib` to the library source and `Go` to the real package.
-/
import TshVerif.Model.StdStrings
namespace Tsh.C15
open Tsh.Std

theorem slice_zero (s : Str) (n : Nat) : slice s 0 n = s.take n := by simp [slice]
theorem slice_to_end (s : Str) (a : Nat) : slice s a s.length = s.drop a := by simp [slice]

theorem isPrefixOf_eq_take (p s : Str) : p.isPrefixOf s = (s.take p.length == p) := by
  rw [Bool.eq_iff_iff]
  simp only [List.isPrefixOf_iff_prefix, beq_iff_eq]
  rw [List.prefix_iff_eq_take]
  exact eq_comm

/-- **HasPrefix** -/
theorem hasPrefix_eq (s p : Str) : Lib.hasPrefix s p = Go.hasPrefix s p := by
  unfold Lib.hasPrefix Go.hasPrefix
  rw [isPrefixOf_eq_take, slice_zero]
  split
  · rfl
  · rename_i h
    symm
    simp only [beq_eq_false_iff_ne, ne_eq]
    intro he
    have := congrArg List.length he
    simp at this
    omega

theorem isSuffixOf_eq_drop (p s : Str) : p.isSuffixOf s = (s.drop (s.length - p.length) == p) := by
  rw [Bool.eq_iff_iff]
  simp only [List.isSuffixOf_iff_suffix, beq_iff_eq]
  rw [List.suffix_iff_eq_drop]
  exact eq_comm

/-- **HasSuffix** -/
theorem hasSuffix_eq (s p : Str) : Lib.hasSuffix s p = Go.hasSuffix s p := by
  unfold Lib.hasSuffix Go.hasSuffix
  rw [isSuffixOf_eq_drop, slice_to_end]
  split
  · rfl
  · rename_i h
    symm
    simp only [beq_eq_false_iff_ne, ne_eq]
    intro he
    have := congrArg List.length he
    simp at this
    omega

/-! ### Index -/

theorem charAt_eq_iff (s sub : Str) (a k : Nat) (hk : k < sub.length) :
    charAt s a = charAt sub k ↔ s[a]? = some sub[k] := by
  unfold charAt
  have e2 : (sub.drop k).take 1 = [sub[k]] := by rw [List.drop_eq_getElem_cons hk]; simp [List.take]
  rw [e2]
  by_cases ha : a < s.length
  · have e1 : (s.drop a).take 1 = [s[a]] := by rw [List.drop_eq_getElem_cons ha]; simp [List.take]
    rw [e1, List.getElem?_eq_getElem ha]
    simp
  · have : s.drop a = [] := List.drop_eq_nil_of_le (by omega)
    rw [this, List.getElem?_eq_none (by omega : s.length ≤ a)]
    simp

/-- the inner loop stops at `sub.length` exactly when the rest of `sub` matches at that place -/
theorem innerMatch_spec (s sub : Str) (i : Nat) : ∀ (f j : Nat), sub.length - j ≤ f → j ≤ sub.length →
    (Lib.innerMatch s sub i f j = sub.length ↔ (sub.drop j).isPrefixOf (s.drop (i + j)) = true) ∧
    Lib.innerMatch s sub i f j ≤ sub.length := by
  intro f
  induction f with
  | zero =>
    intro j hf hj
    have : j = sub.length := by omega
    subst this
    simp [Lib.innerMatch]
  | succ f ih =>
    intro j hf hj
    unfold Lib.innerMatch
    by_cases hlt : j < sub.length
    · simp only [hlt, if_true]
      have hd : sub.drop j = sub[j] :: sub.drop (j + 1) := List.drop_eq_getElem_cons hlt
      by_cases hc : charAt s (i + j) = charAt sub j
      · have hs := (charAt_eq_iff s sub (i + j) j hlt).mp hc
        have hlt2 : i + j < s.length := by
          by_cases h : i + j < s.length
          · exact h
          · rw [List.getElem?_eq_none (by omega)] at hs; cases hs
        have hsd : s.drop (i + j) = s[i + j] :: s.drop (i + j + 1) := List.drop_eq_getElem_cons hlt2
        have heq : s[i + j] = sub[j] := by
          rw [List.getElem?_eq_getElem hlt2] at hs; exact Option.some.inj hs
        simp only [hc, bne_self_eq_false, Bool.false_eq_true, if_false]
        obtain ⟨h1, h2⟩ := ih (j + 1) (by omega) (by omega)
        refine ⟨?_, h2⟩
        rw [h1, hd, hsd, heq]
        simp [List.isPrefixOf, Nat.add_assoc]
      · have hne : (charAt s (i + j) != charAt sub j) = true := by simp [hc]
        simp only [hne, if_true]
        refine ⟨?_, Nat.le_of_lt hlt⟩
        constructor
        · intro h; omega
        · intro h
          exfalso
          apply hc
          rw [charAt_eq_iff s sub (i + j) j hlt]
          rw [hd] at h
          cases hsd : s.drop (i + j) with
          | nil => rw [hsd] at h; simp [List.isPrefixOf] at h
          | cons c t =>
            rw [hsd] at h
            simp only [List.isPrefixOf, Bool.and_eq_true, beq_iff_eq] at h
            have hlt2 : i + j < s.length := by
              by_cases hh : i + j < s.length
              · exact hh
              · rw [List.drop_eq_nil_of_le (by omega)] at hsd; cases hsd
            rw [List.drop_eq_getElem_cons hlt2] at hsd
            simp only [List.cons.injEq] at hsd
            rw [List.getElem?_eq_getElem hlt2, hsd.1, ← h.1]
    · have : j = sub.length := by omega
      subst this
      simp

theorem innerMatch_full (s sub : Str) (i : Nat) :
    (Lib.innerMatch s sub i sub.length 0 == sub.length) = sub.isPrefixOf (s.drop i) := by
  have := (innerMatch_spec s sub i sub.length 0 (by omega) (by omega)).1
  simp only [List.drop_zero, Nat.add_zero] at this
  rw [Bool.eq_iff_iff]
  simpa using this

theorem indexLoop_spec (s sub : Str) (hsub : sub ≠ []) : ∀ (f i : Nat), s.length - i ≤ f → i ≤ s.length →
    Lib.indexLoop s sub f i = Go.indexFrom sub (s.drop i) i := by
  intro f
  induction f with
  | zero =>
    intro i hf hi
    have : i = s.length := by omega
    subst this
    have hp : sub.isPrefixOf ([] : Str) = false := by
      cases sub with
      | nil => exact absurd rfl hsub
      | cons a b => rfl
    simp [Lib.indexLoop, Go.indexFrom, hp]
  | succ f ih =>
    intro i hf hi
    unfold Lib.indexLoop
    by_cases hlt : i < s.length
    · simp only [hlt, if_true]
      rw [innerMatch_full]
      have hd : s.drop i = s[i] :: s.drop (i + 1) := List.drop_eq_getElem_cons hlt
      rw [hd, Go.indexFrom, ← hd]
      split
      · rfl
      · exact ih (i + 1) (by omega) (by omega)
    · have : i = s.length := by omega
      subst this
      have hp : sub.isPrefixOf ([] : Str) = false := by
        cases sub with
        | nil => exact absurd rfl hsub
        | cons a b => rfl
      simp [Go.indexFrom, hp]

theorem indexFrom_nil (s : Str) (off : Nat) : Go.indexFrom [] s off = off := by
  cases s <;> simp [Go.indexFrom, List.isPrefixOf]

/-- **Index** -/
theorem index_eq (s sub : Str) : Lib.index s sub = Go.index s sub := by
  unfold Lib.index Go.index
  by_cases h : sub = []
  · subst h; simp [indexFrom_nil]
  · have : (sub.length == 0) = false := by
      cases sub with
      | nil => exact absurd rfl h
      | cons a b => rfl
    simp only [this, Bool.false_eq_true, if_false]
    have := indexLoop_spec s sub h s.length 0 (by omega) (by omega)
    simpa using this

/-- **Contains** -/
theorem contains_eq (s sub : Str) : Lib.contains s sub = Go.contains s sub := by
  unfold Lib.contains Go.contains; rw [index_eq]

/-! ### Join, Repeat -/

theorem intercalate_cons (sep e : Str) (rest : List Str) :
    sep.intercalate (e :: rest) = e ++ (if rest = [] then [] else sep ++ sep.intercalate rest) := by
  cases rest with
  | nil => simp [List.intercalate]
  | cons x xs => simp [List.intercalate, List.intersperse]

theorem joinLoop_spec (elems : List Str) (sep : Str) : ∀ (f i : Nat) (acc : Str), elems.length - i ≤ f → i ≤ elems.length →
    Lib.joinLoop elems sep elems.length f i acc = acc ++ sep.intercalate (elems.drop i) := by
  intro f
  induction f with
  | zero =>
    intro i acc hf hi
    have : i = elems.length := by omega
    subst this
    simp [Lib.joinLoop, List.intercalate]
  | succ f ih =>
    intro i acc hf hi
    unfold Lib.joinLoop
    by_cases hlt : i < elems.length
    · simp only [hlt, if_true]
      rw [ih (i + 1) _ (by omega) (by omega)]
      have hd : elems.drop i = elems[i] :: elems.drop (i + 1) := List.drop_eq_getElem_cons hlt
      rw [hd, intercalate_cons]
      have hg : elems.getD i [] = elems[i] := by simp [List.getD, List.getElem?_eq_getElem hlt]
      rw [hg]
      by_cases hl : i < elems.length - 1
      · have hne : elems.drop (i + 1) ≠ [] := by
          intro he
          have := congrArg List.length he
          simp at this; omega
        simp [hl, hne, List.append_assoc]
      · have he : elems.drop (i + 1) = [] := List.drop_eq_nil_of_le (by omega)
        simp [hl, he, List.intercalate]
    · have : i = elems.length := by omega
      subst this
      simp [List.intercalate]

/-- **Join** -/
theorem join_eq (elems : List Str) (sep : Str) : Lib.join elems sep = Go.join elems sep := by
  unfold Lib.join Go.join
  have := joinLoop_spec elems sep elems.length 0 [] (by omega) (by omega)
  simpa using this

theorem repeatLoop_spec (s : Str) (count : Int) : ∀ (f : Nat) (i : Int) (acc : Str), i ≤ count → (count - i).toNat ≤ f →
    Lib.repeatLoop s count f i acc = acc ++ (List.replicate (count - i).toNat s).flatten := by
  intro f
  induction f with
  | zero =>
    intro i acc hi hf
    have : (count - i).toNat = 0 := by omega
    simp [Lib.repeatLoop, this]
  | succ f ih =>
    intro i acc hi hf
    unfold Lib.repeatLoop
    by_cases hlt : i < count
    · simp only [hlt, if_true]
      rw [ih (i + 1) (acc ++ s) (by omega) (by omega)]
      have e : (count - i).toNat = (count - (i + 1)).toNat + 1 := by omega
      rw [e, List.replicate_succ]
      simp [List.append_assoc]
    · have : (count - i).toNat = 0 := by omega
      simp [hlt, this]

/-- **Repeat** (Go panics for a negative count; the library returns "") -/
theorem repeat_eq (s : Str) (count : Int) (h : 0 ≤ count) : Go.repeat_ s count = some (Lib.repeat_ s count) := by
  unfold Go.repeat_ Lib.repeat_
  have hn : ¬ count < 0 := by omega
  simp only [hn, if_false]
  have := repeatLoop_spec s count count.toNat 0 [] h (by simp)
  simp only [Int.sub_zero, List.nil_append] at this
  rw [this]

/-! ### Cut family -/

/-- **CutPrefix** -/
theorem cutPrefix_eq (s p : Str) : Lib.cutPrefix s p = Go.cutPrefix s p := by
  unfold Lib.cutPrefix Go.cutPrefix
  rw [hasPrefix_eq, slice_to_end]; rfl

/-- **CutSuffix** -/
theorem cutSuffix_eq (s p : Str) : Lib.cutSuffix s p = Go.cutSuffix s p := by
  unfold Lib.cutSuffix Go.cutSuffix
  rw [hasSuffix_eq, slice_zero]; rfl

/-- **TrimPrefix**, **TrimSuffix** -/
theorem trimPrefix_eq (s p : Str) : Lib.trimPrefix s p = Go.trimPrefix s p := by
  unfold Lib.trimPrefix Go.trimPrefix; rw [cutPrefix_eq]
theorem trimSuffix_eq (s p : Str) : Lib.trimSuffix s p = Go.trimSuffix s p := by
  unfold Lib.trimSuffix Go.trimSuffix; rw [cutSuffix_eq]

/-- **Cut** -/
theorem cut_eq (s sep : Str) : Lib.cut s sep = Go.cut s sep := by
  unfold Lib.cut Go.cut
  rw [index_eq]
  simp only [slice_zero, slice_to_end]

/-! ### Count -/

theorem slice_as_drop_take (s : Str) (a b : Nat) : slice s a b = (s.drop a).take (b - a) := by
  unfold slice; rw [List.drop_take]

theorem hasPrefix_at (s sub : Str) (i : Nat) : Lib.hasPrefix (slice s i s.length) sub = sub.isPrefixOf (s.drop i) := by
  rw [hasPrefix_eq, slice_to_end]; rfl

theorem countLoop_spec (s sub : Str) : ∀ (f i c : Nat), i ≤ s.length →
    Lib.countLoop s sub f i c = c + Go.countFrom sub f (s.drop i) := by
  intro f
  induction f with
  | zero => intro i c _; simp [Lib.countLoop, Go.countFrom]
  | succ f ih =>
    intro i c hi
    unfold Lib.countLoop
    by_cases hlt : i < s.length
    · simp only [hlt, if_true]
      have hd : s.drop i = s[i] :: s.drop (i + 1) := List.drop_eq_getElem_cons hlt
      rw [hasPrefix_at]
      by_cases hp : sub.isPrefixOf (s.drop i) = true
      · simp only [hp, if_true]
        have hle : i + sub.length ≤ s.length := by
          have := List.IsPrefix.length_le (List.isPrefixOf_iff_prefix.mp hp)
          simp at this; omega
        rw [ih _ _ hle]
        rw [hd] at hp ⊢
        simp only [Go.countFrom, hp, if_true]
        rw [← hd, List.drop_drop]
        omega
      · simp only [hp, Bool.false_eq_true, if_false]
        rw [ih _ _ (by omega)]
        rw [hd] at hp ⊢
        simp only [Go.countFrom, hp, Bool.false_eq_true, if_false]
    · have : i = s.length := by omega
      subst this
      simp [Go.countFrom]

/-- **Count** -/
theorem count_eq (s sub : Str) : Lib.count s sub = Go.count s sub := by
  unfold Lib.count Go.count
  cases sub with
  | nil => simp
  | cons a b =>
    simp only [List.length_cons, Nat.add_one_ne_zero, beq_iff_eq, if_false, List.isEmpty_cons, Bool.false_eq_true]
    rw [countLoop_spec _ _ _ _ _ (by omega)]
    simp

/-! ### Split -/

theorem store_dense (elems : List Str) (v : Str) : Lib.store elems elems.length v = elems ++ [v] := by
  simp [Lib.store]

theorem slice_self (s : Str) (a : Nat) : slice s a a = [] := by
  rw [slice_as_drop_take]; simp

theorem slice_snoc (s : Str) (a b : Nat) (hab : a ≤ b) (hb : b < s.length) : slice s a b ++ [s[b]] = slice s a (b + 1) := by
  rw [slice_as_drop_take, slice_as_drop_take]
  have e : b + 1 - a = (b - a) + 1 := by omega
  rw [e, List.take_add_one]
  congr 1
  have : (s.drop a)[b - a]? = some s[b] := by
    rw [List.getElem?_drop]
    have : a + (b - a) = b := by omega
    rw [this, List.getElem?_eq_getElem hb]
  rw [this]; rfl

theorem slice_append_drop (s : Str) (a b : Nat) (hab : a ≤ b) (hb : b ≤ s.length) : slice s a b ++ s.drop b = s.drop a := by
  rw [slice_as_drop_take]
  have : s.drop b = (s.drop a).drop (b - a) := by rw [List.drop_drop]; congr 1; omega
  rw [this, List.take_append_drop]

theorem slice_is_prefix_test (s sep : Str) (e : Nat) :
    (slice s e (e + sep.length) == sep) = sep.isPrefixOf (s.drop e) := by
  rw [isPrefixOf_eq_take, slice_as_drop_take]
  congr 2; omega

theorem splitFrom_short (sep : Str) : ∀ (f : Nat) (cur rest : Str), rest.length < sep.length → rest.length < f →
    Go.splitFrom sep f cur rest = [cur ++ rest] := by
  intro f
  induction f with
  | zero => intro cur rest _ h; omega
  | succ f ih =>
    intro cur rest hs hf
    cases rest with
    | nil => simp [Go.splitFrom]
    | cons c t =>
      have hnp : sep.isPrefixOf (c :: t) = false := by
        cases hp : sep.isPrefixOf (c :: t) with
        | false => rfl
        | true =>
          have := List.IsPrefix.length_le (List.isPrefixOf_iff_prefix.mp hp)
          omega
      simp only [Go.splitFrom, hnp, Bool.false_eq_true, if_false]
      rw [ih _ _ (by simp at hs ⊢; omega) (by simp at hf ⊢; omega)]
      simp

theorem splitLoop_spec (s sep : Str) (hsep : sep ≠ []) : ∀ (f startI endI k : Nat) (elems : List Str),
    elems.length = k → startI ≤ endI → endI ≤ s.length → s.length - endI + 1 ≤ f →
    Lib.store (Lib.splitLoop s sep f startI endI k elems).1 (Lib.splitLoop s sep f startI endI k elems).2.2
        (slice s (Lib.splitLoop s sep f startI endI k elems).2.1 s.length) =
      elems ++ Go.splitFrom sep f (slice s startI endI) (s.drop endI) := by
  intro f
  induction f with
  | zero => intro startI endI k elems _ _ _ hf; omega
  | succ f ih =>
    intro startI endI k elems hk hse hel hf
    have hsl : 0 < sep.length := by cases sep with | nil => exact absurd rfl hsep | cons a b => simp
    unfold Lib.splitLoop
    by_cases hc : endI + sep.length ≤ s.length
    · simp only [hc, if_true]
      have hlt : endI < s.length := by omega
      have hd : s.drop endI = s[endI] :: s.drop (endI + 1) := List.drop_eq_getElem_cons hlt
      rw [slice_is_prefix_test]
      by_cases hp : sep.isPrefixOf (s.drop endI) = true
      · simp only [hp, if_true]
        subst hk
        rw [store_dense]
        rw [ih _ _ _ _ (by simp) (Nat.le_refl _) hc (by omega)]
        rw [hd] at hp ⊢
        simp only [Go.splitFrom, hp, if_true]
        rw [← hd, List.drop_drop, slice_self]
        simp
      · simp only [hp, Bool.false_eq_true, if_false]
        rw [ih _ _ _ _ hk (by omega) (by omega) (by omega)]
        rw [hd] at hp ⊢
        simp only [Go.splitFrom, hp, Bool.false_eq_true, if_false]
        rw [slice_snoc s startI endI hse hlt]
    · simp only [hc, if_false]
      subst hk
      rw [store_dense, splitFrom_short sep _ _ _ (by simp; omega) (by simp; omega), slice_append_drop s startI endI hse hel, slice_to_end]

theorem splitChars_spec (s : Str) : ∀ (f i : Nat) (elems : List Str), elems.length = i → i ≤ s.length → s.length - i ≤ f →
    Lib.splitChars s f i elems = elems ++ (s.drop i).map (fun c => [c]) := by
  intro f
  induction f with
  | zero =>
    intro i elems _ hi hf
    have : i = s.length := by omega
    subst this
    simp [Lib.splitChars]
  | succ f ih =>
    intro i elems hk hi hf
    unfold Lib.splitChars
    by_cases hlt : i < s.length
    · simp only [hlt, if_true]
      subst hk
      rw [store_dense, ih _ _ (by simp) (by omega) (by omega)]
      have hd : s.drop elems.length = s[elems.length] :: s.drop (elems.length + 1) := List.drop_eq_getElem_cons hlt
      have hc : charAt s elems.length = [s[elems.length]] := by unfold charAt; rw [hd]; simp [List.take]
      rw [hd, hc]
      simp only [List.map_cons, List.append_assoc, List.singleton_append]
    · have : i = s.length := by omega
      subst this
      simp

/-- **Split** -/
theorem split_eq (s sep : Str) : Lib.split s sep = Go.split s sep := by
  unfold Lib.split Go.split
  cases hs : sep with
  | nil =>
    simp
    have := splitChars_spec s s.length 0 [] rfl (by omega) (by omega)
    simpa using this
  | cons a b =>
    have hne : sep ≠ [] := by rw [hs]; simp
    simp only [List.length_cons, Nat.add_one_ne_zero, beq_iff_eq, if_false, List.isEmpty_cons, Bool.false_eq_true]
    have := splitLoop_spec s (a :: b) (by simp) (s.length + 1) 0 0 0 [] rfl (Nat.le_refl _) (by omega) (by omega)
    simp only [slice_self, List.drop_zero, List.nil_append] at this
    simpa using this

/-! ### Trim family -/

theorem charAt_of_lt (s : Str) (i : Nat) (h : i < s.length) : charAt s i = [s[i]] := by
  unfold charAt; rw [List.drop_eq_getElem_cons h]; simp [List.take]

theorem cutPrefix_single (s : Str) (c : Char) :
    Lib.cutPrefix s [c] = match s with
      | [] => ([], false)
      | h :: tl => if h = c then (tl, true) else (h :: tl, false) := by
  rw [cutPrefix_eq]
  unfold Go.cutPrefix
  cases s with
  | nil => simp [List.isPrefixOf]
  | cons h tl =>
    by_cases hc : h = c
    · subst hc; simp [List.isPrefixOf]
    · have : (c == h) = false := by simp [Ne.symm hc]
      simp [List.isPrefixOf, this, hc, Ne.symm hc]

theorem trimPass_flag_true (cutF : Str → Str → Str × Bool) (cutset : Str) : ∀ (f i : Nat) (s : Str),
    (Lib.trimPass cutF cutset f i s true).2 = true := by
  intro f
  induction f with
  | zero => intro i s; simp [Lib.trimPass]
  | succ f ih =>
    intro i s
    unfold Lib.trimPass
    split
    · simp only [Bool.true_or]; exact ih _ _
    · rfl

/-- one pass over the cutset with `CutPrefix` -/
theorem trimPass_prefix_spec (cutset : Str) : ∀ (f i : Nat) (s : Str) (t : Bool), cutset.length - i ≤ f →
    (Lib.trimPass Lib.cutPrefix cutset f i s t).1.dropWhile (cutset.contains ·) = s.dropWhile (cutset.contains ·) ∧
    (Lib.trimPass Lib.cutPrefix cutset f i s t).1.length ≤ s.length ∧
    ((Lib.trimPass Lib.cutPrefix cutset f i s t).2 = true → t = true ∨ (Lib.trimPass Lib.cutPrefix cutset f i s t).1.length < s.length) ∧
    ((Lib.trimPass Lib.cutPrefix cutset f i s t).2 = false →
      (Lib.trimPass Lib.cutPrefix cutset f i s t).1 = s ∧ ∀ j (hj : j < cutset.length), i ≤ j → s.head? ≠ some cutset[j]) := by
  intro f
  induction f with
  | zero =>
    intro i s t hf
    have e : Lib.trimPass Lib.cutPrefix cutset 0 i s t = (s, t) := rfl
    rw [e]
    exact ⟨rfl, Nat.le_refl _, fun h => Or.inl h, fun _ => ⟨rfl, fun j hj hij => by omega⟩⟩
  | succ f ih =>
    intro i s t hf
    by_cases hlt : i < cutset.length
    · cases s with
      | nil =>
        have e : Lib.trimPass Lib.cutPrefix cutset (f + 1) i [] t = Lib.trimPass Lib.cutPrefix cutset f (i + 1) [] t := by
          rw [Lib.trimPass]
          simp only [hlt, if_true]
          rw [charAt_of_lt cutset i hlt, cutPrefix_single]
          simp
        rw [e]
        obtain ⟨h1, h2, h3, h4⟩ := ih (i + 1) [] t (by omega)
        exact ⟨h1, h2, h3, fun hr => ⟨(h4 hr).1, fun j hj _ => by simp⟩⟩
      | cons h tl =>
        by_cases hc : h = cutset[i]
        · have e : Lib.trimPass Lib.cutPrefix cutset (f + 1) i (h :: tl) t = Lib.trimPass Lib.cutPrefix cutset f (i + 1) tl true := by
            rw [Lib.trimPass]
            simp only [hlt, if_true]
            rw [charAt_of_lt cutset i hlt, cutPrefix_single]
            simp [hc]
          rw [e]
          obtain ⟨h1, h2, _, _⟩ := ih (i + 1) tl true (by omega)
          have hmem : cutset.contains h = true := by rw [hc]; simp
          refine ⟨?_, ?_, ?_, ?_⟩
          · rw [h1, List.dropWhile_cons_of_pos hmem]
          · simp only [List.length_cons]; omega
          · intro _; right; simp only [List.length_cons]; omega
          · intro hr; rw [trimPass_flag_true] at hr; cases hr
        · have e : Lib.trimPass Lib.cutPrefix cutset (f + 1) i (h :: tl) t = Lib.trimPass Lib.cutPrefix cutset f (i + 1) (h :: tl) t := by
            rw [Lib.trimPass]
            simp only [hlt, if_true]
            rw [charAt_of_lt cutset i hlt, cutPrefix_single]
            simp [hc]
          rw [e]
          obtain ⟨h1, h2, h3, h4⟩ := ih (i + 1) (h :: tl) t (by omega)
          refine ⟨h1, h2, h3, fun hr => ⟨(h4 hr).1, fun j hj hij => ?_⟩⟩
          by_cases hji : j = i
          · subst hji; simp; exact hc
          · exact (h4 hr).2 j hj (by omega)
    · have e : Lib.trimPass Lib.cutPrefix cutset (f + 1) i s t = (s, t) := by
        rw [Lib.trimPass]; simp [hlt]
      rw [e]
      exact ⟨rfl, Nat.le_refl _, fun h => Or.inl h, fun _ => ⟨rfl, fun j hj hij => by omega⟩⟩

theorem trimLoop_prefix_spec (cutset : Str) : ∀ (f : Nat) (s : Str), s.length < f →
    Lib.trimLoop Lib.cutPrefix cutset f s = s.dropWhile (cutset.contains ·) := by
  intro f
  induction f with
  | zero => intro s h; omega
  | succ f ih =>
    intro s hf
    unfold Lib.trimLoop
    obtain ⟨h1, h2, h3, h4⟩ := trimPass_prefix_spec cutset cutset.length 0 s false (by omega)
    cases ht : (Lib.trimPass Lib.cutPrefix cutset cutset.length 0 s false).2 with
    | false =>
      simp only [ht, Bool.not_false, if_true]
      obtain ⟨e, hall⟩ := h4 ht
      rw [e]
      cases s with
      | nil => rfl
      | cons h tl =>
        have : ¬ cutset.contains h = true := by
          intro hm
          have hmem : h ∈ cutset := by simpa using hm
          obtain ⟨j, hj, hje⟩ := List.mem_iff_getElem.mp hmem
          exact absurd (by simp [hje]) (hall j hj (by omega))
        rw [List.dropWhile_cons_of_neg this]
    | true =>
      simp only [ht, Bool.not_true, Bool.false_eq_true, if_false]
      rcases h3 ht with hh | hh
      · cases hh
      · rw [ih _ (by omega), h1]

/-- **TrimLeft** -/
theorem trimLeft_eq (s cutset : Str) : Lib.trimLeft s cutset = Go.trimLeft s cutset := by
  unfold Lib.trimLeft Go.trimLeft
  by_cases hs : s = []
  · subst hs; simp
  · by_cases hcs : cutset = []
    · subst hcs
      have : ∀ (l : Str), l.dropWhile (fun _ => false) = l := by
        intro l; cases l <;> simp [List.dropWhile]
      simp [this]
    · have h1 : s.length > 0 := List.length_pos_iff.mpr hs
      have h2 : cutset.length > 0 := List.length_pos_iff.mpr hcs
      simp only [h1, h2, decide_true, Bool.and_self, if_true]
      exact trimLoop_prefix_spec cutset _ s (by omega)

theorem cutSuffix_rev (s : Str) (c : Char) :
    Lib.cutSuffix s [c] = ((Lib.cutPrefix s.reverse [c]).1.reverse, (Lib.cutPrefix s.reverse [c]).2) := by
  rw [cutSuffix_eq, cutPrefix_single]
  unfold Go.cutSuffix
  rcases List.eq_nil_or_concat s with rfl | ⟨init, x, rfl⟩
  · simp [List.isSuffixOf]
  · simp only [List.concat_eq_append]
    have hr : (init ++ [x]).reverse = x :: init.reverse := by simp
    rw [hr]
    by_cases hx : x = c
    · subst hx
      have : ([x] : Str).isSuffixOf (init ++ [x]) = true := by
        rw [List.isSuffixOf_iff_suffix]; exact ⟨init, rfl⟩
      simp [this]
    · have : ([c] : Str).isSuffixOf (init ++ [x]) = false := by
        cases hsf : ([c] : Str).isSuffixOf (init ++ [x]) with
        | false => rfl
        | true =>
          obtain ⟨t, ht⟩ := List.isSuffixOf_iff_suffix.mp hsf
          have := congrArg List.getLast? ht
          simp at this
          exact absurd this.symm hx
      simp [this, hx]

theorem trimPass_rev (cutset : Str) (cutF cutF' : Str → Str → Str × Bool)
    (hrel : ∀ s x, cutF' s x = ((cutF s.reverse x).1.reverse, (cutF s.reverse x).2)) :
    ∀ (f i : Nat) (s : Str) (t : Bool),
      Lib.trimPass cutF' cutset f i s t =
        ((Lib.trimPass cutF cutset f i s.reverse t).1.reverse, (Lib.trimPass cutF cutset f i s.reverse t).2) := by
  intro f
  induction f with
  | zero => intro i s t; simp [Lib.trimPass]
  | succ f ih =>
    intro i s t
    rw [Lib.trimPass, Lib.trimPass]
    by_cases hlt : i < cutset.length
    · simp only [hlt, if_true, hrel]
      rw [ih]
      simp
    · simp [hlt]

theorem trimLoop_rev (cutset : Str) (cutF cutF' : Str → Str → Str × Bool)
    (hrel : ∀ s x, cutF' s x = ((cutF s.reverse x).1.reverse, (cutF s.reverse x).2)) :
    ∀ (f : Nat) (s : Str), Lib.trimLoop cutF' cutset f s = (Lib.trimLoop cutF cutset f s.reverse).reverse := by
  intro f
  induction f with
  | zero => intro s; simp [Lib.trimLoop]
  | succ f ih =>
    intro s
    rw [Lib.trimLoop, Lib.trimLoop, trimPass_rev cutset cutF cutF' hrel]
    simp only
    split
    · simp
    · rw [ih]; simp

theorem charAt_single_or_nil (cutset : Str) (i : Nat) : ∃ c, charAt cutset i = [c] ∨ charAt cutset i = [] := by
  by_cases h : i < cutset.length
  · exact ⟨cutset[i], Or.inl (charAt_of_lt cutset i h)⟩
  · exact ⟨' ', Or.inr (by unfold charAt; rw [List.drop_eq_nil_of_le (by omega)]; rfl)⟩

/-- the relation only matters for the one-character strings a pass uses -/
theorem trimPass_suffix_rev (cutset : Str) : ∀ (f i : Nat) (s : Str) (t : Bool),
    Lib.trimPass Lib.cutSuffix cutset f i s t =
      ((Lib.trimPass Lib.cutPrefix cutset f i s.reverse t).1.reverse, (Lib.trimPass Lib.cutPrefix cutset f i s.reverse t).2) := by
  intro f
  induction f with
  | zero => intro i s t; simp [Lib.trimPass]
  | succ f ih =>
    intro i s t
    rw [Lib.trimPass, Lib.trimPass]
    by_cases hlt : i < cutset.length
    · simp only [hlt, if_true]
      rw [charAt_of_lt cutset i hlt, cutSuffix_rev, ih]
      simp
    · simp [hlt]

theorem trimLoop_suffix_rev (cutset : Str) : ∀ (f : Nat) (s : Str),
    Lib.trimLoop Lib.cutSuffix cutset f s = (Lib.trimLoop Lib.cutPrefix cutset f s.reverse).reverse := by
  intro f
  induction f with
  | zero => intro s; simp [Lib.trimLoop]
  | succ f ih =>
    intro s
    rw [Lib.trimLoop, Lib.trimLoop, trimPass_suffix_rev]
    simp only
    split
    · simp
    · rw [ih]; simp

/-- **TrimRight** -/
theorem trimRight_eq (s cutset : Str) : Lib.trimRight s cutset = Go.trimRight s cutset := by
  unfold Lib.trimRight Go.trimRight
  by_cases hs : s = []
  · subst hs; simp
  · by_cases hcs : cutset = []
    · subst hcs
      have : ∀ (l : Str), l.dropWhile (fun _ => false) = l := by
        intro l; cases l <;> simp [List.dropWhile]
      simp [this]
    · have h1 : s.length > 0 := List.length_pos_iff.mpr hs
      have h2 : cutset.length > 0 := List.length_pos_iff.mpr hcs
      simp only [h1, h2, decide_true, Bool.and_self, if_true]
      rw [trimLoop_suffix_rev, trimLoop_prefix_spec cutset _ s.reverse (by simp)]

/-- **Trim**, **TrimSpace** -/
theorem trim_eq (s cutset : Str) : Lib.trim s cutset = Go.trim s cutset := by
  unfold Lib.trim Go.trim; rw [trimLeft_eq, trimRight_eq]

theorem trimSpace_eq (s : Str) : Lib.trimSpace s = Go.trimSpace s := by
  unfold Lib.trimSpace Go.trimSpace; rw [trim_eq]

/-! ### Replace -/

theorem replaceLoop_nonempty_spec (s old new : Str) (n : Int) (hold : old ≠ []) : ∀ (f i : Nat) (rep : Int) (res : Str),
    i ≤ s.length → 0 ≤ rep → (0 ≤ n → rep ≤ n) →
    (Lib.replaceLoop s old new n f i rep res).1 ++ slice s (Lib.replaceLoop s old new n f i rep res).2 s.length =
      res ++ Go.replaceFrom old new f (n - rep) (s.drop i) := by
  intro f
  induction f with
  | zero => intro i rep res _ _ _; simp [Lib.replaceLoop, Go.replaceFrom, slice_to_end]
  | succ f ih =>
    intro i rep res hi hr hn
    have holen : (old.length == 0) = false := by
      cases old with
      | nil => exact absurd rfl hold
      | cons a b => rfl
    unfold Lib.replaceLoop
    by_cases hcont : (decide (i < s.length) && (decide (rep < n) || decide (n < 0))) = true
    · simp only [hcont, if_true, holen, Bool.false_eq_true, if_false]
      simp only [Bool.and_eq_true, Bool.or_eq_true, decide_eq_true_eq] at hcont
      obtain ⟨hlt, hc⟩ := hcont
      have hne : (n - rep == 0) = false := by
        simp only [beq_eq_false_iff_ne, ne_eq]
        rcases hc with h | h <;> omega
      have hd : s.drop i = s[i] :: s.drop (i + 1) := List.drop_eq_getElem_cons hlt
      rw [hasPrefix_at]
      by_cases hp : old.isPrefixOf (s.drop i) = true
      · simp only [hp, if_true]
        have hle : i + old.length ≤ s.length := by
          have := List.IsPrefix.length_le (List.isPrefixOf_iff_prefix.mp hp)
          simp at this; omega
        rw [ih _ _ _ hle (by omega) (by intro h0; have := hn h0; rcases hc with h | h <;> omega)]
        rw [hd] at hp ⊢
        simp only [Go.replaceFrom, hne, Bool.false_eq_true, if_false, hp, if_true]
        rw [← hd, List.drop_drop]
        have : n - (rep + 1) = n - rep - 1 := by omega
        rw [this]
        simp
      · simp only [hp, Bool.false_eq_true, if_false]
        rw [ih _ _ _ (by omega) hr hn]
        rw [hd] at hp ⊢
        simp only [Go.replaceFrom, hne, Bool.false_eq_true, if_false, hp]
        rw [charAt_of_lt s i hlt]
        simp
    · simp only [hcont, Bool.false_eq_true, if_false]
      simp only [Bool.and_eq_true, Bool.or_eq_true, decide_eq_true_eq] at hcont
      rw [slice_to_end]
      by_cases hlt : i < s.length
      · have hz : n - rep = 0 := by
          have : ¬ (rep < n ∨ n < 0) := by
            intro h; exact hcont ⟨hlt, h⟩
          have h1 : ¬ rep < n := fun h => this (Or.inl h)
          have h2 : ¬ n < 0 := fun h => this (Or.inr h)
          have := hn (by omega)
          omega
        simp [Go.replaceFrom, hz]
      · have : s.drop i = [] := List.drop_eq_nil_of_le (by omega)
        rw [this]
        simp [Go.replaceFrom]

/-- `new` inserted after each of the first `k` characters (all if `k < 0`) -/
def insertAfter (new : Str) : Int → Str → Str
  | _, [] => []
  | k, c :: t => if k == 0 then c :: t else c :: (new ++ insertAfter new (k - 1) t)

theorem insertAfter_zero (new l : Str) : insertAfter new 0 l = l := by
  cases l <;> simp [insertAfter]

theorem replaceLoop_empty_spec (s new : Str) (n : Int) : ∀ (f i : Nat) (rep : Int) (res : Str),
    i ≤ s.length → s.length - i ≤ f → 0 ≤ rep → (0 ≤ n → rep ≤ n) →
    (Lib.replaceLoop s [] new n f i rep res).1 ++ slice s (Lib.replaceLoop s [] new n f i rep res).2 s.length =
      res ++ insertAfter new (n - rep) (s.drop i) := by
  intro f
  induction f with
  | zero =>
    intro i rep res hi hf _ _
    have : i = s.length := by omega
    subst this
    simp [Lib.replaceLoop, slice_to_end, insertAfter]
  | succ f ih =>
    intro i rep res hi hf hr hn
    unfold Lib.replaceLoop
    by_cases hcont : (decide (i < s.length) && (decide (rep < n) || decide (n < 0))) = true
    · simp only [hcont, if_true, List.length_nil, beq_self_eq_true]
      simp only [Bool.and_eq_true, Bool.or_eq_true, decide_eq_true_eq] at hcont
      obtain ⟨hlt, hc⟩ := hcont
      have hne : (n - rep == 0) = false := by
        simp only [beq_eq_false_iff_ne, ne_eq]
        rcases hc with h | h <;> omega
      have hd : s.drop i = s[i] :: s.drop (i + 1) := List.drop_eq_getElem_cons hlt
      rw [ih _ _ _ (by omega) (by omega) (by omega) (by intro h0; have := hn h0; rcases hc with h | h <;> omega)]
      rw [hd, charAt_of_lt s i hlt]
      simp only [insertAfter, hne, Bool.false_eq_true, if_false]
      have : n - (rep + 1) = n - rep - 1 := by omega
      rw [this]
      simp
    · simp only [hcont, Bool.false_eq_true, if_false]
      simp only [Bool.and_eq_true, Bool.or_eq_true, decide_eq_true_eq] at hcont
      rw [slice_to_end]
      by_cases hlt : i < s.length
      · have hz : n - rep = 0 := by
          have h1 : ¬ rep < n := fun h => hcont ⟨hlt, Or.inl h⟩
          have h2 : ¬ n < 0 := fun h => hcont ⟨hlt, Or.inr h⟩
          have := hn (by omega)
          omega
        rw [hz, insertAfter_zero]
      · have : s.drop i = [] := List.drop_eq_nil_of_le (by omega)
        rw [this]; simp [insertAfter]

theorem replaceEmpty_as_insertAfter (new : Str) : ∀ (s : Str) (n : Int), n ≠ 0 →
    Go.replaceEmpty new n s = new ++ insertAfter new (n - 1) s := by
  intro s
  induction s with
  | nil => intro n hn; simp [Go.replaceEmpty, insertAfter, hn]
  | cons c t ih =>
    intro n hn
    have h0 : (n == 0) = false := by simp [hn]
    simp only [Go.replaceEmpty, h0, Bool.false_eq_true, if_false, insertAfter]
    by_cases h1 : n - 1 = 0
    · rw [h1]
      simp
      cases t <;> simp [Go.replaceEmpty]
    · have : (n - 1 == 0) = false := by simp [h1]
      simp only [this, Bool.false_eq_true, if_false]
      rw [ih (n - 1) h1]

/-- **Replace** -/
theorem replace_eq (s old new : Str) (n : Int) : Lib.replace s old new n = Go.replace s old new n := by
  unfold Lib.replace Go.replace
  cases hold : old with
  | nil =>
    simp only [List.length_nil, beq_self_eq_true, Bool.true_and, List.isEmpty_nil, if_true]
    by_cases hn : n = 0
    · subst hn
      simp only [bne_self_eq_false, Bool.false_eq_true, if_false]
      have := replaceLoop_empty_spec s new 0 (s.length + 1) 0 0 [] (by omega) (by omega) (by omega) (by omega)
      simp only [Int.sub_zero, List.drop_zero, List.nil_append, insertAfter_zero] at this
      rw [this]
      cases s <;> simp [Go.replaceEmpty]
    · have hb : (n != 0) = true := by simp [hn]
      simp only [hb, if_true]
      have := replaceLoop_empty_spec s new n (s.length + 1) 0 1 new (by omega) (by omega) (by omega) (by intro h; omega)
      simp only [List.drop_zero] at this
      rw [this, replaceEmpty_as_insertAfter new s n hn]
  | cons a b =>
    have hne : (a :: b) ≠ [] := by simp
    simp only [List.length_cons, Nat.add_one_ne_zero, beq_iff_eq, Bool.false_and, Bool.false_eq_true, if_false, List.isEmpty_cons]
    have := replaceLoop_nonempty_spec s (a :: b) new n hne (s.length + 1) 0 0 [] (by omega) (by omega) (by intro h; exact h)
    simpa using this

/-- **ReplaceAll** -/
theorem replaceAll_eq (s old new : Str) : Lib.replaceAll s old new = Go.replaceAll s old new := by
  unfold Lib.replaceAll Go.replaceAll; rw [replace_eq]

/-! non-vacuity -/
example : Lib.index "hello".toList "ll".toList = 2 ∧ Lib.index "hello".toList "".toList = 0 ∧ Lib.index "".toList "x".toList = -1 := by decide
example : Lib.join ["a".toList, "".toList, "b".toList] ", ".toList = "a, , b".toList := by decide

end Tsh.C15
