import TshVerif.Base
namespace Tsh.C15
open Tsh

end Tsh.C15
