/-
  C15 - std/strings agrees with Go's strings package.

  `Std.Lib.f` is a hand-written rendering of the library function `f` of std/strings.tsh (loop for loop;
  tied to the library by running both on the same arguments in every run, 8.9k tuples in the quick tier);
  `Std.Go.f` is a declarative specification of Go's function on ASCII arguments (tied to the real
  package the same way).  Proved here, for ALL arguments: `Lib.f = Go.f` for
      HasPrefix, HasSuffix, Index, Contains, Join, Repeat (count ≥ 0; Go panics below), CutPrefix,
      CutSuffix, TrimPrefix, TrimSuffix, Cut
  including empty strings, empty separators and substrings longer than the string.
  Count, Split, Replace, ReplaceAll, TrimLeft, TrimRight, Trim, TrimSpace are decided by the
  exhaustive small-scope comparison of the check (rendering, specification, compiled library and Go's
  package on the same tuples), not by a theorem.
-/
import TshVerif.Model.StdStrings
namespace Tsh.C15
open Tsh.Std

theorem slice_zero (s : Str) (n : Nat) : slice s 0 n = s.take n := by simp [slice]
theorem slice_to_end (s : Str) (a : Nat) : slice s a s.length = s.drop a := by simp [slice]

theorem isPrefixOf_eq_take (p s : Str) : p.isPrefixOf s = (s.take p.length == p) := by
  rw [Bool.eq_iff_iff]
  simp only [List.isPrefixOf_iff_prefix, beq_iff_eq]
  rw [List.prefix_iff_eq_take]
  exact eq_comm

/-- **HasPrefix** -/
theorem hasPrefix_eq (s p : Str) : Lib.hasPrefix s p = Go.hasPrefix s p := by
  unfold Lib.hasPrefix Go.hasPrefix
  rw [isPrefixOf_eq_take, slice_zero]
  split
  · rfl
  · rename_i h
    symm
    simp only [beq_eq_false_iff_ne, ne_eq]
    intro he
    have := congrArg List.length he
    simp at this
    omega

theorem isSuffixOf_eq_drop (p s : Str) : p.isSuffixOf s = (s.drop (s.length - p.length) == p) := by
  rw [Bool.eq_iff_iff]
  simp only [List.isSuffixOf_iff_suffix, beq_iff_eq]
  rw [List.suffix_iff_eq_drop]
  exact eq_comm

/-- **HasSuffix** -/
theorem hasSuffix_eq (s p : Str) : Lib.hasSuffix s p = Go.hasSuffix s p := by
  unfold Lib.hasSuffix Go.hasSuffix
  rw [isSuffixOf_eq_drop, slice_to_end]
  split
  · rfl
  · rename_i h
    symm
    simp only [beq_eq_false_iff_ne, ne_eq]
    intro he
    have := congrArg List.length he
    simp at this
    omega

/-! ### Index -/

theorem charAt_eq_iff (s sub : Str) (a k : Nat) (hk : k < sub.length) :
    charAt s a = charAt sub k ↔ s[a]? = some sub[k] := by
  unfold charAt
  have e2 : (sub.drop k).take 1 = [sub[k]] := by rw [List.drop_eq_getElem_cons hk]; simp [List.take]
  rw [e2]
  by_cases ha : a < s.length
  · have e1 : (s.drop a).take 1 = [s[a]] := by rw [List.drop_eq_getElem_cons ha]; simp [List.take]
    rw [e1, List.getElem?_eq_getElem ha]
    simp
  · have : s.drop a = [] := List.drop_eq_nil_of_le (by omega)
    rw [this, List.getElem?_eq_none (by omega : s.length ≤ a)]
    simp

/-- the inner loop stops at `sub.length` exactly when the rest of `sub` matches at that place -/
theorem innerMatch_spec (s sub : Str) (i : Nat) : ∀ (f j : Nat), sub.length - j ≤ f → j ≤ sub.length →
    (Lib.innerMatch s sub i f j = sub.length ↔ (sub.drop j).isPrefixOf (s.drop (i + j)) = true) ∧
    Lib.innerMatch s sub i f j ≤ sub.length := by
  intro f
  induction f with
  | zero =>
    intro j hf hj
    have : j = sub.length := by omega
    subst this
    simp [Lib.innerMatch]
  | succ f ih =>
    intro j hf hj
    unfold Lib.innerMatch
    by_cases hlt : j < sub.length
    · simp only [hlt, if_true]
      have hd : sub.drop j = sub[j] :: sub.drop (j + 1) := List.drop_eq_getElem_cons hlt
      by_cases hc : charAt s (i + j) = charAt sub j
      · have hs := (charAt_eq_iff s sub (i + j) j hlt).mp hc
        have hlt2 : i + j < s.length := by
          by_cases h : i + j < s.length
          · exact h
          · rw [List.getElem?_eq_none (by omega)] at hs; cases hs
        have hsd : s.drop (i + j) = s[i + j] :: s.drop (i + j + 1) := List.drop_eq_getElem_cons hlt2
        have heq : s[i + j] = sub[j] := by
          rw [List.getElem?_eq_getElem hlt2] at hs; exact Option.some.inj hs
        simp only [hc, bne_self_eq_false, Bool.false_eq_true, if_false]
        obtain ⟨h1, h2⟩ := ih (j + 1) (by omega) (by omega)
        refine ⟨?_, h2⟩
        rw [h1, hd, hsd, heq]
        simp [List.isPrefixOf, Nat.add_assoc]
      · have hne : (charAt s (i + j) != charAt sub j) = true := by simp [hc]
        simp only [hne, if_true]
        refine ⟨?_, Nat.le_of_lt hlt⟩
        constructor
        · intro h; omega
        · intro h
          exfalso
          apply hc
          rw [charAt_eq_iff s sub (i + j) j hlt]
          rw [hd] at h
          cases hsd : s.drop (i + j) with
          | nil => rw [hsd] at h; simp [List.isPrefixOf] at h
          | cons c t =>
            rw [hsd] at h
            simp only [List.isPrefixOf, Bool.and_eq_true, beq_iff_eq] at h
            have hlt2 : i + j < s.length := by
              by_cases hh : i + j < s.length
              · exact hh
              · rw [List.drop_eq_nil_of_le (by omega)] at hsd; cases hsd
            rw [List.drop_eq_getElem_cons hlt2] at hsd
            simp only [List.cons.injEq] at hsd
            rw [List.getElem?_eq_getElem hlt2, hsd.1, ← h.1]
    · have : j = sub.length := by omega
      subst this
      simp

theorem innerMatch_full (s sub : Str) (i : Nat) :
    (Lib.innerMatch s sub i sub.length 0 == sub.length) = sub.isPrefixOf (s.drop i) := by
  have := (innerMatch_spec s sub i sub.length 0 (by omega) (by omega)).1
  simp only [List.drop_zero, Nat.add_zero] at this
  rw [Bool.eq_iff_iff]
  simpa using this

theorem indexLoop_spec (s sub : Str) (hsub : sub ≠ []) : ∀ (f i : Nat), s.length - i ≤ f → i ≤ s.length →
    Lib.indexLoop s sub f i = Go.indexFrom sub (s.drop i) i := by
  intro f
  induction f with
  | zero =>
    intro i hf hi
    have : i = s.length := by omega
    subst this
    have hp : sub.isPrefixOf ([] : Str) = false := by
      cases sub with
      | nil => exact absurd rfl hsub
      | cons a b => rfl
    simp [Lib.indexLoop, Go.indexFrom, hp]
  | succ f ih =>
    intro i hf hi
    unfold Lib.indexLoop
    by_cases hlt : i < s.length
    · simp only [hlt, if_true]
      rw [innerMatch_full]
      have hd : s.drop i = s[i] :: s.drop (i + 1) := List.drop_eq_getElem_cons hlt
      rw [hd, Go.indexFrom, ← hd]
      split
      · rfl
      · exact ih (i + 1) (by omega) (by omega)
    · have : i = s.length := by omega
      subst this
      have hp : sub.isPrefixOf ([] : Str) = false := by
        cases sub with
        | nil => exact absurd rfl hsub
        | cons a b => rfl
      simp [Go.indexFrom, hp]

theorem indexFrom_nil (s : Str) (off : Nat) : Go.indexFrom [] s off = off := by
  cases s <;> simp [Go.indexFrom, List.isPrefixOf]

/-- **Index** -/
theorem index_eq (s sub : Str) : Lib.index s sub = Go.index s sub := by
  unfold Lib.index Go.index
  by_cases h : sub = []
  · subst h; simp [indexFrom_nil]
  · have : (sub.length == 0) = false := by
      cases sub with
      | nil => exact absurd rfl h
      | cons a b => rfl
    simp only [this, Bool.false_eq_true, if_false]
    have := indexLoop_spec s sub h s.length 0 (by omega) (by omega)
    simpa using this

/-- **Contains** -/
theorem contains_eq (s sub : Str) : Lib.contains s sub = Go.contains s sub := by
  unfold Lib.contains Go.contains; rw [index_eq]

/-! ### Join, Repeat -/

theorem intercalate_cons (sep e : Str) (rest : List Str) :
    sep.intercalate (e :: rest) = e ++ (if rest = [] then [] else sep ++ sep.intercalate rest) := by
  cases rest with
  | nil => simp [List.intercalate]
  | cons x xs => simp [List.intercalate, List.intersperse]

theorem joinLoop_spec (elems : List Str) (sep : Str) : ∀ (f i : Nat) (acc : Str), elems.length - i ≤ f → i ≤ elems.length →
    Lib.joinLoop elems sep elems.length f i acc = acc ++ sep.intercalate (elems.drop i) := by
  intro f
  induction f with
  | zero =>
    intro i acc hf hi
    have : i = elems.length := by omega
    subst this
    simp [Lib.joinLoop, List.intercalate]
  | succ f ih =>
    intro i acc hf hi
    unfold Lib.joinLoop
    by_cases hlt : i < elems.length
    · simp only [hlt, if_true]
      rw [ih (i + 1) _ (by omega) (by omega)]
      have hd : elems.drop i = elems[i] :: elems.drop (i + 1) := List.drop_eq_getElem_cons hlt
      rw [hd, intercalate_cons]
      have hg : elems.getD i [] = elems[i] := by simp [List.getD, List.getElem?_eq_getElem hlt]
      rw [hg]
      by_cases hl : i < elems.length - 1
      · have hne : elems.drop (i + 1) ≠ [] := by
          intro he
          have := congrArg List.length he
          simp at this; omega
        simp [hl, hne, List.append_assoc]
      · have he : elems.drop (i + 1) = [] := List.drop_eq_nil_of_le (by omega)
        simp [hl, he, List.intercalate]
    · have : i = elems.length := by omega
      subst this
      simp [List.intercalate]

/-- **Join** -/
theorem join_eq (elems : List Str) (sep : Str) : Lib.join elems sep = Go.join elems sep := by
  unfold Lib.join Go.join
  have := joinLoop_spec elems sep elems.length 0 [] (by omega) (by omega)
  simpa using this

theorem repeatLoop_spec (s : Str) (count : Int) : ∀ (f : Nat) (i : Int) (acc : Str), i ≤ count → (count - i).toNat ≤ f →
    Lib.repeatLoop s count f i acc = acc ++ (List.replicate (count - i).toNat s).flatten := by
  intro f
  induction f with
  | zero =>
    intro i acc hi hf
    have : (count - i).toNat = 0 := by omega
    simp [Lib.repeatLoop, this]
  | succ f ih =>
    intro i acc hi hf
    unfold Lib.repeatLoop
    by_cases hlt : i < count
    · simp only [hlt, if_true]
      rw [ih (i + 1) (acc ++ s) (by omega) (by omega)]
      have e : (count - i).toNat = (count - (i + 1)).toNat + 1 := by omega
      rw [e, List.replicate_succ]
      simp [List.append_assoc]
    · have : (count - i).toNat = 0 := by omega
      simp [hlt, this]

/-- **Repeat** (Go panics for a negative count; the library returns "") -/
theorem repeat_eq (s : Str) (count : Int) (h : 0 ≤ count) : Go.repeat_ s count = some (Lib.repeat_ s count) := by
  unfold Go.repeat_ Lib.repeat_
  have hn : ¬ count < 0 := by omega
  simp only [hn, if_false]
  have := repeatLoop_spec s count count.toNat 0 [] h (by simp)
  simp only [Int.sub_zero, List.nil_append] at this
  rw [this]

/-! ### Cut family -/

/-- **CutPrefix** -/
theorem cutPrefix_eq (s p : Str) : Lib.cutPrefix s p = Go.cutPrefix s p := by
  unfold Lib.cutPrefix Go.cutPrefix
  rw [hasPrefix_eq, slice_to_end]; rfl

/-- **CutSuffix** -/
theorem cutSuffix_eq (s p : Str) : Lib.cutSuffix s p = Go.cutSuffix s p := by
  unfold Lib.cutSuffix Go.cutSuffix
  rw [hasSuffix_eq, slice_zero]; rfl

/-- **TrimPrefix**, **TrimSuffix** -/
theorem trimPrefix_eq (s p : Str) : Lib.trimPrefix s p = Go.trimPrefix s p := by
  unfold Lib.trimPrefix Go.trimPrefix; rw [cutPrefix_eq]
theorem trimSuffix_eq (s p : Str) : Lib.trimSuffix s p = Go.trimSuffix s p := by
  unfold Lib.trimSuffix Go.trimSuffix; rw [cutSuffix_eq]

/-- **Cut** -/
theorem cut_eq (s sep : Str) : Lib.cut s sep = Go.cut s sep := by
  unfold Lib.cut Go.cut
  rw [index_eq]
  simp only [slice_zero, slice_to_end]

/-! non-vacuity -/
example : Lib.index "hello".toList "ll".toList = 2 ∧ Lib.index "hello".toList "".toList = 0 ∧ Lib.index "".toList "x".toList = -1 := by decide
example : Lib.join ["a".toList, "".toList, "b".toList] ", ".toList = "a, , b".toList := by decide

end Tsh.C15
