/-
  C13 - Transpilation is total: a script or an error, never a crash or a hang.
  Proved here: the lexer part (for every byte string the lexer model returns tokens or an error within
  `length src` iterations; every iteration consumes input), the shape of its result (the token list
  always ends in EOF, so the parser's look-ahead never runs past a missing end marker), and that
  every error message literal of the code base is non-empty (re-extracted from the source).
  Emitter: on every typed AST the bash emitter model returns a script (no error, no out-of-range
  access).  The parser part is decided by the error-class correspondence and the crash/hang
  oracle of the check (DESIGN.md, C13).
-/
import TshVerif.Props.C11
import TshVerif.Generated.Facts
import TshVerif.Lemmas.BashTotal
import TshVerif.Lemmas.BatchTotal
namespace Tsh.C13
open Tsh Tsh.Lexer Tsh.LexTables

/-- **The lexer terminates on every input** (it needs at most one iteration per byte). -/
theorem lex_never_diverges (src : Bytes) : tokenize src ≠ .diverge := (C11.lex_total src).2

/-- the lexer returns either tokens or an error -- there is no third outcome -/
theorem lex_tokens_or_error (src : Bytes) : (∃ ts, tokenize src = .ok ts) ∨ tokenize src = .err := by
  cases h : tokenize src with
  | ok ts => exact Or.inl ⟨ts, rfl⟩
  | err => exact Or.inr rfl
  | diverge => exact absurd h (lex_never_diverges src)

/-- every iteration of the lexer loop consumes at least one byte (the termination measure) -/
theorem lex_progress {last : Nat} {s : Bytes} {ty : Nat} {val rest : Bytes}
    (h : step last s = .tok ty val rest) : rest.length < s.length := C11.step_nonempty h

/-- a successful lexer run always ends in exactly one EOF token -/
theorem tokens_end_with_eof (src : Bytes) (ts : List Token) (h : tokenize src = .ok ts) :
    ∃ (init : List Token) (p : Nat × Nat), ts = init ++ [{ ty := TT_EOF, val := [], row := p.1, col := p.2 }] := by
  unfold tokenize at h
  split at h
  · rename_i ls pos _
    simp at h
    exact ⟨_, pos, h.symm⟩
  · simp at h
  · simp at h

/-- **An error is never empty**: every message / format literal passed to `errors.New`, `fmt.Errorf`,
    `atError`, `expectedError`, `expectedKeywordError` anywhere in the non-test source is non-empty
    (lengths re-extracted on every run). -/
theorem errors_nonempty : Facts.errorFormatLengths.all (fun n => decide (0 < n)) = true := by decide +kernel

theorem error_literals_counted : Facts.errorFormats.length = Facts.errorFormatLengths.length := by decide +kernel

/-- **The bash emitter neither fails nor panics on a typed AST**: every stack access of the converter
    (`fors[len-1]` in the guarded increment) and every index into the value lists of a
    multi-assignment is in range, for every typed program -- the typing checker is run on every AST
    the real parser returns. -/
theorem bash_emitter_total_on_typed_asts (p : Program) (ht : typedProgram p = true) :
    ∃ script, Bash.emitBash p = .ok script := by
  obtain ⟨ls, h⟩ := Bash.compile_total p ht
  exact ⟨Bash.renderScript ls, by unfold Bash.emitBash; rw [h]⟩

/-- **The Batch emitter neither fails nor panics on a typed, well-placed AST**: `ifs[len-1]`, `fors[len-1]`,
    `endLabels[len-1]`, `funcs[len-1]` and the current function block are always there when the converter reaches
    for them (heights of the stacks are an invariant of the walk). -/
theorem batch_emitter_total_on_typed_asts (p : Program) (ht : typedProgram p = true) (hp : placedStmts {} p = true) :
    ∃ script, Batch.emitBatch p = .ok script := by
  obtain ⟨ls, h⟩ := Batch.compile_total p ht hp
  exact ⟨Batch.renderScript ls, by unfold Batch.emitBatch; rw [h]⟩

/-- the emitter model itself terminates on EVERY AST (it is defined by structural recursion): a result
    is always one of script / error / panic -/
theorem bash_emitter_three_outcomes (p : Program) :
    (∃ s, Bash.emitBash p = .ok s) ∨ (∃ m, Bash.emitBash p = .error m) ∨ (∃ m, Bash.emitBash p = .panic m) := by
  cases h : Bash.emitBash p with
  | ok s => exact Or.inl ⟨s, rfl⟩
  | error m => exact Or.inr (Or.inl ⟨m, rfl⟩)
  | panic m => exact Or.inr (Or.inr ⟨m, rfl⟩)

end Tsh.C13
