import TshVerif.Model.Lexer
namespace Tsh.C13
open Tsh Tsh.Lexer

end Tsh.C13
