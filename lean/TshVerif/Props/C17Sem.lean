/-
  C17 - write, read and exists behave as a line store over the file system: the semantic side.

  `Sem/BashFs` says what the three file lines of the bash back-end do to a file system (a partial map from files to bytes;
  which file a path names is a parameter).  Proved here, for EVERY file system, file, content and history:

    * `read_after_write`            after `write(p, s)` the file holds s and one line feed, and `read(p)` returns s without its
                                     trailing line feeds - s itself whenever s does not end in a line feed (`…_clean`);
                                     `read_after_write_loses_trailing_newlines` is the witness of the known finding
                                     read-strips-trailing-newlines (the statement WITHOUT the hypothesis is false);
    * `read_after_append`           `write(p, s, true)` on a file that holds `old` and a line feed: `read(p)` returns old, a line
                                     feed and s (s not empty and not ending in a line feed; an appended empty line is invisible to
                                     `read`: `append_of_empty_line_is_invisible`, same known finding);
    * `append_creates_the_file`, `write_touches_one_file`, `exists_after_write`, `exists_iff`;
    * `file_system_is_a_line_store` REFINEMENT: a file system that holds a line store still holds it after any history of
                                     write / append operations (the store does `[s]` resp. `old ++ [s]`), and
                                     `read_returns_the_lines`: `read` returns the lines joined by line feeds;
    * `write_statement_stores_the_line`: the tie to the transpiler - for every literal path and content without `$` / backquote
                                     and every converter state the statement `write("p", "s"[, true|false])` is translated to ONE
                                     line, and that line, in every shell state, turns the file system `fs` into
                                     `truncWrite fs (resolve p) s` resp. `appendWrite …`.
  Trusted here: that /bin/bash reads the rendered text of the line as `execFileLine` says (executed in every run of the check:
  request FS of the driver replays every generated history in this model next to the real script on a real directory tree).
-/
import TshVerif.Lemmas.BashFs
import TshVerif.Lemmas.SemScan
import TshVerif.Props.C17
namespace Tsh.C17
open Tsh Tsh.Tr Tsh.Bash Tsh.BashFs

set_option linter.unusedSectionVars false
variable {F : Type} [DecidableEq F]

/-! ### the three lines on one file -/

/-- **After `write(p, s)` the file holds s followed by a line feed.** -/
theorem file_after_write (fs : Fs F) (f : F) (s : BashFs.Bytes) (flag : Option Int) (h : flag ≠ some 1) :
    (writeLine flag fs f s).content f = some (s ++ ['\n']) := by
  simp [writeLine, h, truncWrite, Fs.put]

/-- **`read(p)` after `write(p, s)`**: s without its trailing line feeds -/
theorem read_after_write (fs : Fs F) (f : F) (s : BashFs.Bytes) (flag : Option Int) (h : flag ≠ some 1) :
    readSubst (writeLine flag fs f s) f = some (stripNl s) := by
  simp [readSubst, file_after_write fs f s flag h, stripNl_append_nl]

/-- … which is s itself for every s that does not end in a line feed -/
theorem read_after_write_clean (fs : Fs F) (f : F) (s : BashFs.Bytes) (flag : Option Int) (h : flag ≠ some 1)
    (hs : noTrailingNl s = true) : readSubst (writeLine flag fs f s) f = some s := by
  rw [read_after_write fs f s flag h, stripNl_of_noTrailingNl s hs]

/-- the hypothesis is needed: the known finding read-strips-trailing-newlines -/
theorem read_after_write_loses_trailing_newlines :
    readSubst (writeLine (some 0) (⟨fun _ => none⟩ : Fs Nat) 0 "a\n".toList) 0 = some "a".toList := by decide

/-- **`write(p, s, true)` appends a further line**: `read(p)` returns the old content, a line feed and s -/
theorem read_after_append (fs : Fs F) (f : F) (old s : BashFs.Bytes) (hf : fs.content f = some (old ++ ['\n']))
    (hne : s ≠ []) (hs : noTrailingNl s = true) :
    readSubst (writeLine (some 1) fs f s) f = some (old ++ '\n' :: s) := by
  have hc : (writeLine (some 1) fs f s).content f = some ((old ++ '\n' :: s) ++ ['\n']) := by
    simp [writeLine, appendWrite, Fs.put, hf]
  simp only [readSubst, hc, Option.map_some, stripNl_append_nl]
  rw [stripNl_of_noTrailingNl]
  have := noTrailingNl_append (old ++ ['\n']) s hne hs
  simpa using this

/-- an appended EMPTY line cannot be seen through `read` (same known finding) -/
theorem append_of_empty_line_is_invisible :
    let fs : Fs Nat := writeLine (some 0) ⟨fun _ => none⟩ 0 "a".toList
    readSubst (writeLine (some 1) fs 0 []) 0 = readSubst fs 0 := by decide

/-- appending to a file that does not exist creates it -/
theorem append_creates_the_file (fs : Fs F) (f : F) (s : BashFs.Bytes) (hf : fs.content f = none) :
    (writeLine (some 1) fs f s).content f = some (s ++ ['\n']) := by
  simp [writeLine, appendWrite, Fs.put, hf]

/-- **Writing never touches another file**: content, `read` and `exists` of every other file stay as they are -/
theorem write_touches_one_file (fs : Fs F) (f g : F) (s : BashFs.Bytes) (flag : Option Int) (hg : g ≠ f) :
    (writeLine flag fs f s).content g = fs.content g ∧
    readSubst (writeLine flag fs f s) g = readSubst fs g ∧
    existsTest (writeLine flag fs f s) g = existsTest fs g := by
  have h : (writeLine flag fs f s).content g = fs.content g := by
    unfold writeLine; split <;> simp [appendWrite, truncWrite, Fs.put, hg]
  simp [readSubst, existsTest, h]

theorem exists_after_write (fs : Fs F) (f : F) (s : BashFs.Bytes) (flag : Option Int) :
    existsTest (writeLine flag fs f s) f = true := by
  unfold writeLine; split <;> simp [existsTest, appendWrite, truncWrite, Fs.put]

/-- **`exists(p)` is true exactly when p exists** -/
theorem exists_iff (fs : Fs F) (f : F) : existsTest fs f = true ↔ ∃ b, fs.content f = some b := by
  simp [existsTest, Option.isSome_iff_exists]

/-! ### every history: the file system is a line store -/

/-- **Refinement.** Whatever sequence of `write` / `write(.., true)` operations runs, on whatever files: a file system that
    holds a line store holds the store the same operations build (`[s]` for a write, `old ++ [s]` for an append). -/
theorem file_system_is_a_line_store (fs : Fs F) (st : Store F) (ops : List (Op F)) (h : Holds fs st) :
    Holds (runOps fs ops) (runStore st ops) := holds_run ops fs st h

/-- the empty file system holds the empty store (so the theorem applies to every history from scratch) -/
theorem empty_holds : Holds (⟨fun _ => none⟩ : Fs F) ⟨fun _ => none⟩ := by intro f; rfl

/-- **`read` returns the lines**: the earlier ones each with its line feed, then the last one (without trailing line feeds) -/
theorem read_returns_the_lines (fs : Fs F) (st : Store F) (h : Holds fs st) (f : F) (ls : List BashFs.Bytes) (s : BashFs.Bytes)
    (hl : st.lines f = some (ls ++ [s])) : readSubst fs f = some (stripNl (bytesOf ls ++ s)) := by
  simp only [readSubst, h f, hl, Option.map_some, bytesOf_concat, stripNl_append_nl]

theorem read_returns_the_lines_clean (fs : Fs F) (st : Store F) (h : Holds fs st) (f : F) (ls : List BashFs.Bytes) (s : BashFs.Bytes)
    (hl : st.lines f = some (ls ++ [s])) (hne : s ≠ []) (hs : noTrailingNl s = true) :
    readSubst fs f = some (bytesOf ls ++ s) := by
  rw [read_returns_the_lines fs st h f ls s hl, stripNl_of_noTrailingNl _ (noTrailingNl_append _ s hne hs)]

/-- a history on two files, replayed: the hypotheses are satisfiable and the result is what one expects -/
example :
    let ops : List (Op Nat) := [⟨0, "x".toList, false⟩, ⟨1, "k".toList, true⟩, ⟨0, "a b".toList, false⟩, ⟨0, "c".toList, true⟩]
    readSubst (runOps ⟨fun _ => none⟩ ops) 0 = some "a b\nc".toList ∧ readSubst (runOps ⟨fun _ => none⟩ ops) 1 = some "k".toList ∧
    existsTest (runOps ⟨fun _ => none⟩ ops) 2 = false := by decide

/-! ### the tie to the transpiler -/

/-- what a file line of the script does in shell state `ρ` to the file system (`resolve`: which file a path names) -/
def execFileLine (resolve : String → F) (ρ : Sem.Store) (fs : Fs F) : Line → Option (Fs F)
  | .writeFile a c p =>
      match Sem.expand ρ a, Sem.expand ρ c, Sem.expand ρ p with
      | some va, some vc, some vp => some (writeLine (Sem.asInt va) fs (resolve vp) vc.toList)
      | _, _, _ => none
  | _ => none

theorem expand_literal (ρ : Sem.Store) (lit : String) (h : plainString lit = true) :
    Sem.expand ρ (stringToString lit) = some lit := by
  apply Sem.Complete.toExpand
  rw [stringToString_toList]
  apply Sem.complete_literal
  intro c hc
  have := (List.all_eq_true.mp (by simpa [plainString] using h)) c hc
  simpa [plainChar] using this

theorem expand_boolStr (ρ : Sem.Store) (b : Bool) : Sem.expand ρ (boolStr b) = some (boolStr b) :=
  Sem.Complete.toExpand (Sem.complete_bool ρ b)

/-- the append flag of a `write` statement as written: absent, `false` or `true` -/
def flagOf : Option Bool → Option Expr
  | none => none
  | some b => some (.boolLit b)

/-- **The `write` statement stores the line.**  For every literal path `p` and content `c` without `$` / backquote (blanks,
    quotes, backslashes, glob characters, leading dashes, line feeds included), every spelling of the flag and every converter
    state, `write("p", "c"[, flag])` adds exactly ONE line to the script, and that line - in every shell state `ρ`, on every file
    system, whatever file the path names - appends `c` and a line feed to that file if the flag is `true` and otherwise makes
    the file hold `c` and a line feed. -/
theorem write_statement_stores_the_line (p c : String) (flag : Option Bool) (s : St)
    (hp : plainString p = true) (hc : plainString c = true) :
    ∃ l : Line, evalStmt conv (.expr (.write (.strLit p) (.strLit c) (flagOf flag))) s = .ok ((), { s with code := l :: s.code }) ∧
      ∀ (resolve : String → F) (ρ : Sem.Store) (fs : Fs F),
        execFileLine resolve ρ fs l =
          some (if flag = some true then appendWrite fs (resolve p) c.toList else truncWrite fs (resolve p) c.toList) := by
  cases flag with
  | none =>
    refine ⟨.writeFile "0" (stringToString c) (stringToString p), ?_, ?_⟩
    · simp [flagOf, evalStmt, evalExpr, Expr.valueType, evalAppend, bind, pure, conv, ValueType.isString, firstValue, addLine,
        Tr.modify, Tr.get]
    · intro resolve ρ fs
      have hb : ("0" : String) = boolStr false := rfl
      simp only [hb, execFileLine, expand_literal ρ p hp, expand_literal ρ c hc, expand_boolStr, Sem.asInt_boolStr, writeLine]
      simp
  | some b =>
    refine ⟨.writeFile (boolStr b) (stringToString c) (stringToString p), ?_, ?_⟩
    · simp [flagOf, evalStmt, evalExpr, Expr.valueType, evalAppend, bind, pure, conv, ValueType.isString, ValueType.isBool,
        firstValue, addLine, Tr.modify, Tr.get]
    · intro resolve ρ fs
      simp only [execFileLine, expand_literal ρ p hp, expand_literal ρ c hc, expand_boolStr, Sem.asInt_boolStr, writeLine]
      cases b <;> simp

/-- the composition: `write("p", "c")` and then `read` of the same file returns `c` (c not ending in a line feed) - for every
    literal path and content of the alphabet, every converter state, shell state and file system -/
theorem write_statement_then_read (p c : String) (s : St) (hp : plainString p = true) (hc : plainString c = true)
    (hn : noTrailingNl c.toList = true) :
    ∃ l : Line, evalStmt conv (.expr (.write (.strLit p) (.strLit c) none)) s = .ok ((), { s with code := l :: s.code }) ∧
      ∀ (resolve : String → F) (ρ : Sem.Store) (fs : Fs F),
        ∃ fs', execFileLine resolve ρ fs l = some fs' ∧ readSubst fs' (resolve p) = some c.toList ∧
          existsTest fs' (resolve p) = true ∧ ∀ g, g ≠ resolve p → fs'.content g = fs.content g := by
  obtain ⟨l, h1, h2⟩ := write_statement_stores_the_line (F := F) p c none s hp hc
  refine ⟨l, h1, fun resolve ρ fs => ⟨_, h2 resolve ρ fs, ?_, ?_, ?_⟩⟩
  · simpa [writeLine] using read_after_write_clean fs (resolve p) c.toList (some 0) (by decide) hn
  · simpa [writeLine] using exists_after_write fs (resolve p) c.toList (some 0)
  · intro g hg
    simpa [writeLine] using (write_touches_one_file fs (resolve p) g c.toList (some 0) hg).1

/-- the hypotheses are satisfiable by a content full of shell characters -/
example : plainString "a \"b\" \\ * ? ~ ; & | < > ( ) # ! ' -n {} = %" = true ∧
    noTrailingNl "a \"b\" \\ * ? ~ ; & | < > ( ) # ! ' -n {} = %".toList = true := by decide

end Tsh.C17
