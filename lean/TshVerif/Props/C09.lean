/-
  C09 - Multi-file programs link correctly and unused-function removal is safe.

  Proved here, about the call-graph part of the parser model (Model/Parser.lean: `mergeUsed` = the merge
  loop of evaluateImports, `getUsedFuncs`, `cleanProgram` = removal of unused functions; the model is
  tied to parser.Parse by AST correspondence on generated import graphs in every run):
    * `merge_keeps_own_edges`, `merge_takes_all_imported_edges`: merging the call graph of an imported
      file never loses an edge -- neither of the importing file nor of ANY entry of the imported graph
      (a live function can never look dead because of an incomplete merge);
    * `reachable_functions_are_collected`: whenever `getUsedFuncs` (a work list that looks at every function
      once) returns, its result contains every function reachable in the call graph from the start key (the
      top-level code is the key ""), and is closed under calls (`workList_spec`);
    * `removal_keeps_every_reachable_function`: `cleanProgram` keeps every function definition that top
      level code can reach through calls, and changes nothing else: the result is the body filtered, in
      the same order, all non-function statements kept;
    * `removal_only_drops_functions`.
  That every call is recorded in the graph (`recordCall` at each call site), the alias/prefix resolution
  and definedness-before-use in the emitted scripts are decided by the import-graph oracle of the check.
-/
import TshVerif.Lemmas.Assoc
namespace Tsh.C09
open Tsh Tsh.Parser

/-- `b` is a callee recorded for `a` -/
def Edge (used : List (String × List String)) (a b : String) : Prop := ∃ cs, assocGet used a = some cs ∧ b ∈ cs

/-! ### the merge of an imported call graph -/

def addNew (found : List String) (callees : List String) : List String :=
  callees.foldl (fun l c => if found.contains c then l else l ++ [c]) found

theorem addNew_acc (found : List String) : ∀ (callees acc : List String) (x : String), x ∈ acc →
    x ∈ callees.foldl (fun l c => if found.contains c then l else l ++ [c]) acc := by
  intro callees
  induction callees with
  | nil => intro acc x h; simpa using h
  | cons c rest ih =>
    intro acc x h
    simp only [List.foldl_cons]
    apply ih
    split
    · exact h
    · simp [h]

theorem addNew_new (found : List String) : ∀ (callees acc : List String) (x : String), found ⊆ acc → x ∈ callees →
    x ∈ callees.foldl (fun l c => if found.contains c then l else l ++ [c]) acc := by
  intro callees
  induction callees with
  | nil => intro acc x _ h; simp at h
  | cons c rest ih =>
    intro acc x hsub h
    simp only [List.foldl_cons]
    simp at h
    rcases h with rfl | h
    · apply addNew_acc
      split
      · rename_i hc; exact hsub (by simpa using hc)
      · simp
    · apply ih _ _ _ h
      split
      · exact hsub
      · intro y hy; simp [hsub hy]

def mergeStep (acc : List (String × List String)) (e : String × List String) : List (String × List String) :=
  match assocGet acc e.1 with
  | none => acc ++ [(e.1, e.2)]
  | some found => assocSet acc e.1 (addNew found e.2)

theorem mergeUsed_eq (mine imported : List (String × List String)) : mergeUsed mine imported = imported.foldl mergeStep mine := by
  unfold mergeUsed
  congr 1

theorem assocGet_append_none {β : Type} (m : List (String × β)) (k : String) (v : β) (h : assocGet m k = none) (k' : String) :
    assocGet (m ++ [(k, v)]) k' = if k' = k then some v else assocGet m k' := by
  unfold assocGet at *
  rw [List.find?_append]
  by_cases hk : k' = k
  · subst hk
    have : List.find? (fun x => x.1 == k') m = none := by simpa using h
    simp [this]
  · cases hf : List.find? (fun x => x.1 == k') m with
    | none =>
      have : (k == k') = false := by simp [Ne.symm hk]
      simp [List.find?, this, hk]
    | some x => simp [hk]

theorem mergeStep_keeps (acc : List (String × List String)) (e : String × List String) (a b : String) (h : Edge acc a b) :
    Edge (mergeStep acc e) a b := by
  obtain ⟨cs, hg, hb⟩ := h
  unfold mergeStep
  cases hf : assocGet acc e.1 with
  | none =>
    refine ⟨cs, ?_, hb⟩
    rw [assocGet_append_none _ _ _ hf]
    have : a ≠ e.1 := by intro he; rw [he] at hg; rw [hg] at hf; cases hf
    simp [this, hg]
  | some found =>
    by_cases ha : a = e.1
    · subst ha
      rw [hg] at hf
      cases hf
      exact ⟨_, assocGet_set_same _ _ _, addNew_acc _ _ _ _ hb⟩
    · exact ⟨cs, by rw [assocGet_set_other _ _ _ _ ha]; exact hg, hb⟩

theorem mergeStep_adds (acc : List (String × List String)) (e : String × List String) (c : String) (h : c ∈ e.2) :
    Edge (mergeStep acc e) e.1 c := by
  unfold mergeStep
  cases hf : assocGet acc e.1 with
  | none => exact ⟨e.2, by rw [assocGet_append_none _ _ _ hf]; simp, h⟩
  | some found => exact ⟨_, assocGet_set_same _ _ _, addNew_new _ _ _ _ (fun _ hx => hx) h⟩

theorem foldl_mergeStep_keeps : ∀ (imported acc : List (String × List String)) (a b : String), Edge acc a b →
    Edge (imported.foldl mergeStep acc) a b := by
  intro imported
  induction imported with
  | nil => intro acc a b h; simpa using h
  | cons e rest ih => intro acc a b h; simp only [List.foldl_cons]; exact ih _ _ _ (mergeStep_keeps acc e a b h)

/-- **The merge keeps every edge of the importing file.** -/
theorem merge_keeps_own_edges (mine imported : List (String × List String)) (a b : String) (h : Edge mine a b) :
    Edge (mergeUsed mine imported) a b := by
  rw [mergeUsed_eq]; exact foldl_mergeStep_keeps imported mine a b h

/-- **The merge takes over every edge of the imported graph** (of every entry, not only the first per key). -/
theorem merge_takes_all_imported_edges : ∀ (imported mine : List (String × List String)) (e : String × List String) (c : String),
    e ∈ imported → c ∈ e.2 → Edge (mergeUsed mine imported) e.1 c := by
  intro imported
  induction imported with
  | nil => intro mine e c he; simp at he
  | cons x rest ih =>
    intro mine e c he hc
    rw [mergeUsed_eq]
    simp only [List.foldl_cons]
    simp at he
    rcases he with rfl | he
    · exact foldl_mergeStep_keeps rest _ _ _ (mergeStep_adds mine e c hc)
    · have := ih (mergeStep mine x) e c he hc
      rwa [mergeUsed_eq] at this

/-! ### reachability and removal -/

inductive Reach (used : List (String × List String)) : String → String → Prop
  | edge {a b} : Edge used a b → Reach used a b
  | step {a b c} : Edge used a b → Reach used b c → Reach used a c

theorem addNewFuncs_prefix : ∀ (fs acc : List String), ∃ extra, addNewFuncs acc fs = acc ++ extra := by
  intro fs
  induction fs with
  | nil => intro acc; exact ⟨[], by simp [addNewFuncs]⟩
  | cons x rest ih =>
    intro acc
    simp only [addNewFuncs, List.foldl_cons]
    by_cases h : acc.contains x = true
    · simp only [h, if_true]; exact ih acc
    · simp only [h, Bool.false_eq_true, if_false]
      obtain ⟨e, he⟩ := ih (acc ++ [x])
      exact ⟨x :: e, by simp only [addNewFuncs] at he; rw [he]; simp⟩

theorem addNewFuncs_mem_acc (fs acc : List String) (x : String) (h : x ∈ acc) : x ∈ addNewFuncs acc fs := by
  obtain ⟨e, he⟩ := addNewFuncs_prefix fs acc
  rw [he]; simp [h]

theorem addNewFuncs_mem_new : ∀ (fs acc : List String) (x : String), x ∈ fs → x ∈ addNewFuncs acc fs := by
  intro fs
  induction fs with
  | nil => intro acc x h; simp at h
  | cons y rest ih =>
    intro acc x h
    simp only [addNewFuncs, List.foldl_cons]
    simp at h
    rcases h with rfl | h
    · by_cases hc : acc.contains x = true
      · simp only [hc, if_true]
        exact addNewFuncs_mem_acc rest acc x (by simpa using hc)
      · simp only [hc, Bool.false_eq_true, if_false]
        exact addNewFuncs_mem_acc rest (acc ++ [x]) x (by simp)
    · exact ih _ x h

/-- the processed part of the work list: every callee of every element before index `i` is in the list -/
def Processed (used : List (String × List String)) (i : Nat) (acc : List String) : Prop :=
  ∀ j (hj : j < acc.length), j < i → ∀ c, Edge used acc[j] c → c ∈ acc

theorem workList_spec (used : List (String × List String)) : ∀ (fuel i : Nat) (acc r : List String),
    workList used fuel i acc = some r → Processed used i acc →
    (∀ x ∈ acc, x ∈ r) ∧ (∀ a ∈ r, ∀ c, Edge used a c → c ∈ r) := by
  intro fuel
  induction fuel with
  | zero => intro i acc r h; simp [workList] at h
  | succ fuel ih =>
    intro i acc r h hp
    unfold workList at h
    by_cases hlt : i < acc.length
    · simp only [hlt, dif_pos] at h
      obtain ⟨extra, he⟩ := addNewFuncs_prefix ((assocGet used acc[i]).getD []) acc
      have hp' : Processed used (i + 1) (addNewFuncs acc ((assocGet used acc[i]).getD [])) := by
        intro j hj hji c hc
        have hjl : j < acc.length := by omega
        have hget : (addNewFuncs acc ((assocGet used acc[i]).getD []))[j] = acc[j] := by
          simp only [he]; rw [List.getElem_append_left hjl]
        rw [hget] at hc
        by_cases hj' : j < i
        · exact addNewFuncs_mem_acc _ _ _ (hp j hjl hj' c hc)
        · have : j = i := by omega
          subst this
          obtain ⟨cs, hcs, hm⟩ := hc
          apply addNewFuncs_mem_new
          simp [hcs, hm]
      obtain ⟨h1, h2⟩ := ih (i + 1) _ r h hp'
      exact ⟨fun x hx => h1 x (addNewFuncs_mem_acc _ _ _ hx), h2⟩
    · simp only [hlt, dif_neg, not_false_eq_true] at h
      cases h
      refine ⟨fun x hx => hx, ?_⟩
      intro a ha c hc
      obtain ⟨j, hj, rfl⟩ := List.mem_iff_getElem.mp ha
      exact hp j hj (by omega) c hc

/-- **Everything reachable is collected.** -/
theorem reachable_functions_are_collected (used : List (String × List String)) (start : String) (r : List String)
    (h : getUsedFuncs used start = some r) : ∀ x, Reach used start x → x ∈ r := by
  unfold getUsedFuncs at h
  cases hg : assocGet used start with
  | none =>
    intro x hx
    exfalso
    cases hx with
    | edge e => obtain ⟨cs, he, _⟩ := e; rw [hg] at he; cases he
    | step e _ => obtain ⟨cs, he, _⟩ := e; rw [hg] at he; cases he
  | some callees =>
    simp only [hg] at h
    obtain ⟨h1, h2⟩ := workList_spec used _ 0 _ r h (by intro j _ hj; omega)
    have closed : ∀ a x, Reach used a x → a ∈ r → x ∈ r := by
      intro a x hr
      induction hr with
      | edge e => intro ha; exact h2 _ ha _ e
      | step e _ ih => intro ha; exact ih (h2 _ ha _ e)
    intro x hx
    cases hx with
    | edge e =>
      obtain ⟨cs, he, hm⟩ := e
      rw [hg] at he; cases he
      exact h1 x (addNewFuncs_mem_new _ _ _ hm)
    | step e hr =>
      obtain ⟨cs, he, hm⟩ := e
      rw [hg] at he; cases he
      exact closed _ x hr (h1 _ (addNewFuncs_mem_new _ _ _ hm))

def isKept (keep : List String) : Stmt → Bool
  | .funcDef name _ _ _ _ => keep.contains name
  | _ => true

theorem cleanProgram_eq (used : List (String × List String)) (body out : List Stmt) (h : cleanProgram used body = some out) :
    ∃ keep, getUsedFuncs used "" = some keep ∧ out = body.filter (isKept keep) := by
  unfold cleanProgram at h
  cases hk : getUsedFuncs used "" with
  | none => simp [hk, bind, Option.bind] at h
  | some keep =>
    simp only [hk, bind, Option.bind, pure] at h
    refine ⟨keep, rfl, ?_⟩
    cases h
    congr 1

/-- **Removal of unused functions is safe**: every function definition that top-level code can reach
    through recorded calls is still in the program. -/
theorem removal_keeps_every_reachable_function (used : List (String × List String)) (body out : List Stmt)
    (h : cleanProgram used body = some out) (name : String) (pub : Bool) (rets : List ValueType) (params : List Var) (fb : List Stmt)
    (hin : Stmt.funcDef name pub rets params fb ∈ body) (hr : Reach used "" name) :
    Stmt.funcDef name pub rets params fb ∈ out := by
  obtain ⟨keep, hk, rfl⟩ := cleanProgram_eq used body out h
  have := reachable_functions_are_collected used "" keep hk name hr
  simp [List.mem_filter, hin, isKept, this]

/-- removal drops nothing but function definitions, and keeps the order of what it keeps -/
theorem removal_only_drops_functions (used : List (String × List String)) (body out : List Stmt)
    (h : cleanProgram used body = some out) :
    out.Sublist body ∧ ∀ st ∈ body, (∀ n p r ps b, st ≠ .funcDef n p r ps b) → st ∈ out := by
  obtain ⟨keep, _, rfl⟩ := cleanProgram_eq used body out h
  refine ⟨List.filter_sublist, ?_⟩
  intro st hst hnf
  have : isKept keep st = true := by
    cases st with
    | funcDef n p r ps b => exact absurd rfl (hnf n p r ps b)
    | _ => rfl
  simp [List.mem_filter, hst, this]

end Tsh.C09
