import TshVerif.Model.Parser
namespace Tsh.C09
open Tsh Tsh.Parser

end Tsh.C09
