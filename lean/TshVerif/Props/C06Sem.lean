/-
  C06, the parser half - ACCEPTED PROGRAMS ARE TYPED.

  `Props/C06.lean` proves that typed ASTs are translated by both emitters (so acceptance is decided by the parser
  alone).  This file proves the other half about the model of the parser (Model/Parser.lean, every `evaluateX` of
  parser.go; tied to the code by the AST correspondence of every run): whatever files, import graphs and token
  sequences it is given, an AST it returns satisfies `PT.program` (Model/PTyped.lean), i.e.

    * every operand of an arithmetic / comparison / logical / negation operator has the type the operator requires and
      both sides agree; conditions of if / else-if / for are bool; case expressions have the type of the switch tag;
      indices and substring bounds are int, subscripted values are slices or strings; slice elements and element
      assignments have the element type; `len`, `itoa`, `exists`, `read`, `input`, `copy`, `write` get the argument
      types of the README; `!` only on bool;
    * a defined or assigned variable has the type of its value (one value per variable, or exactly the values of ONE
      multi-value call), increments only on int, compound assignment only with an operator of the type;
    * a value-returning function ends in a `return` of exactly the declared types (`funcBodyCheck`), parameter and
      return types are bool / int / string or slices of them; only calls are expression statements;
    * no expression of an accepted program has a type outside bool, int, string, their slices, "no value" and
      "several values" - and the last two never as a slice.

  What is NOT in `PT` because the parser does not check it (both are visible in the statement, not hidden):
  `return` values inside nested blocks are not compared with the declared types (known finding
  nested-return-unchecked), and an argument's type is compared with the parameter's type where the call is parsed -
  the AST does not carry parameter types, so `PT` only keeps "typed and not void" for arguments.

  `accepted_strict_programs_are_translated` then closes the chain: an accepted program that does not use the two
  constructs the parser accepts and the emitters do not take (`PT.strictSs`: ordering comparison of strings; a program
  call or multi-value call in a single-value position) is translated by the Bash emitter - a script, no error, no
  panic.  The checker `PT.program` and `PT.strictSs` are also evaluated on every AST the REAL parser returns.
-/
import TshVerif.Lemmas.ParserTypedBridge
import TshVerif.Lemmas.ParserSigProg
import TshVerif.Lemmas.ParserDefs
import TshVerif.Lemmas.BashTotal
namespace Tsh.C06
open Tsh Tsh.Tr Tsh.Parser

theorem parseRaw_good (fs : FileSys) (main : String) : Good (parseRaw fs main) (fun p => stmtsP p.body) := by
  have S := stmtIH_all exprIH_all
  unfold parseRaw
  split
  · trivial
  · split
    · trivial
    · split
      · trivial
      · dsimp only
        have he := evalProgram_ok S (fileOK_all S (fs.files.length + 1)) fs main [] (fuelFor ‹Array Tok›.size) { toks := ‹Array Tok›, pfx := "" }
        split
        · rename_i body s1 hee
          exact he.ok hee
        · trivial
        · rename_i hp; exact he.np hp
        · trivial

theorem parse_good (fs : FileSys) (main : String) : Good (Parser.parse fs main) (fun p => stmtsP p.body) := by
  have hr := parseRaw_good fs main
  unfold Parser.parse
  split
  · rename_i raw s hraw
    split
    · rename_i b hcl
      exact cleanProgram_ok hcl (hr.ok hraw)
    · trivial
  · trivial
  · rename_i hp; exact hr.np hp
  · trivial

/-- **Every program the parser accepts is typed** (all file systems, all import graphs, all sources). -/
theorem accepted_programs_are_typed (fs : FileSys) (main : String) (p : Parsed) (s : PSt)
    (h : Parser.parse fs main = .ok p s) : PT.program p.body = true :=
  (parse_good fs main).ok h

/-- the same for every imported file, at any depth of the import graph -/
theorem accepted_files_are_typed (depth : Nat) (fs : FileSys) (path : String) (imported : Bool) (importing : List String)
    (p : Parsed) (s : PSt) (h : parseFile depth fs path imported importing = .ok p s) : PT.program p.body = true :=
  (fileOK_all (stmtIH_all exprIH_all) depth fs path imported importing).ok h

/-- **The parser never reaches one of its crash sites**: the places where parser.go would index a slice out of range or
    use a result that is not there (argument lists of builtins after their arity check, the parameter that belongs to an
    argument, the first name of a definition, the value of a compound assignment) - for all inputs. -/
theorem parser_never_panics (fs : FileSys) (main : String) : Parser.parse fs main ≠ .panic :=
  (parse_good fs main).np

/-- every expression the expression parser returns is typed and has a type of the language -/
theorem parsed_expressions_are_typed (fuel : Nat) (ctx : Ctx) (hc : CtxOK ctx) (s s' : PSt) (e : Expr)
    (h : evalExpression fuel ctx s = .ok e s') : PT.expr e = true ∧ PT.known (Expr.valueType e) = true :=
  have he := ((exprIH_all fuel).expression ctx hc).ok s e s' h
  ⟨he, expr_known e he⟩

/-- **Calls agree with the signatures of the functions they name** (the part of the typing of calls that `PT` cannot
    state, because a call node keeps no parameter types): in the program the parser builds from a main file - before the
    unused functions are removed - every call in the file's OWN statements names a function that is declared, by the imported
    statements in front of them or earlier in the file itself, with exactly the arguments' types as parameter types (so: the
    right number of arguments, each of the parameter's type) and with the return types the call node is typed with; a
    function is not known inside its own body. -/
theorem calls_agree_with_signatures (fs : FileSys) (main : String) (raw : Parsed) (s : PSt)
    (h : parseRaw fs main = .ok raw s) :
    ∃ imported own, raw.body = imported ++ own ∧ PT.sigSs (PT.declareAll [] imported) own = true := by
  unfold parseRaw at h
  split at h
  · simp at h
  · split at h
    · simp at h
    · split at h
      · simp at h
      · dsimp only at h
        split at h
        · rename_i body s1 he
          simp only [PRes.ok.injEq] at h
          obtain ⟨rfl, _⟩ := h
          exact evalProgram_sig _ _ _ _ _ _ _ _ he
        · simp at h
        · simp at h
        · simp at h

/-- the same for every statement the statement parser returns, in any context whose functions have their signatures in `F` -/
theorem parsed_statement_calls_agree (F : List PT.Sig) (fuel : Nat) (ctx : Ctx) (hc : FuncsIn F ctx) (s s' : PSt) (st : Stmt)
    (h : evalStatement fuel ctx s = .ok st s') : PT.sigS F st = true :=
  (sigSIH_all sigIH_all fuel).statement F ctx hc s st s' h

/-- the parser's guarantee implies the emitters' discipline, except for the two constructs of `strict` -/
theorem parser_typed_and_strict_is_typed (p : Program) (h : PT.program p = true) (hs : PT.strictSs p = true) :
    typedProgram p = true :=
  typedSs_of_pt p h hs

/-- **Accepted programs are translated** (Bash target): acceptance is decided by the parser alone. -/
theorem accepted_strict_programs_are_translated (fs : FileSys) (main : String) (p : Parsed) (s : PSt)
    (h : Parser.parse fs main = .ok p s) (hs : PT.strictSs p.body = true) : ∃ ls, Bash.compile p.body = .ok ls :=
  Bash.compile_total p.body (parser_typed_and_strict_is_typed p.body (accepted_programs_are_typed fs main p s h) hs)

/-! ### the statement is not vacuous, and the two excluded constructs are real -/

private def fsOf (src : String) : FileSys := { files := [("/v/main.tsh", src.toUTF8.toList, "h0000000")], exeDir := "/x" }

private def accepted (src : String) : Option Program :=
  match Parser.parse (fsOf src) "/v/main.tsh" with
  | .ok p _ => some p.body
  | _ => none

private def sampleSrc : String :=
  "var xs = []int{1, 2}\nfunc f(a int, s string) (int, string) {\n\tif a > 1 {\n\t\treturn a, s\n\t}\n\treturn a + 1, s + \"x\"\n}\n" ++
  "n, t := f(len(xs), \"q\")\nfor i, v := range xs {\n\txs[i] = v * n\n}\nswitch t {\ncase \"qx\":\n\tprint(xs[0], itoa(n))\n}\n"

-- the parser model accepts a program with slices, a multi-value function, range loop and switch; it is typed and strict
#guard (accepted sampleSrc).isSome
#guard ((accepted sampleSrc).map PT.program) == some true
#guard ((accepted sampleSrc).map PT.strictSs) == some true
-- ill-typed programs are rejected by the model (operands, condition, assignment, element, return, argument)
#guard (accepted "x := 1 + \"a\"\n").isNone
#guard (accepted "if 1 {\n}\n").isNone
#guard (accepted "x := 1\nx = \"s\"\n").isNone
#guard (accepted "xs := []int{\"a\"}\n").isNone
#guard (accepted "func f() int {\n\treturn \"a\"\n}\n").isNone
#guard (accepted "func f(a int) {\n}\nf(\"s\")\n").isNone
-- the two constructs the parser accepts beyond the emitters' discipline: typed in the sense of `PT`, not strict
#guard ((accepted "b := \"a\" < \"b\"\n").map fun p => (PT.program p, PT.strictSs p, typedProgram p)) == some (true, false, false)
#guard ((accepted "a, b := @x(), @y()\n").map fun p => (PT.program p, PT.strictSs p, typedProgram p)) == some (true, false, false)
-- a function without return value has no value, in brackets either (repaired defect: fix commit "reject a bracketed call of a function without return value")
#guard (accepted "func f() {\n}\nx := (f())\n").isNone
#guard (accepted "func f() {\n}\nvar x = ((f()))\n").isNone
#guard (accepted "func f() {\n}\nfunc g() int {\n\treturn (f())\n}\n").isNone
#guard (accepted "func m() (int, int) {\n\treturn 1, 2\n}\nx := (m())\n").isNone
#guard (accepted "func m() (int, int) {\n\treturn 1, 2\n}\na, b := (m())\n").isNone
#guard (accepted "func m() (int, int) {\n\treturn 1, 2\n}\na, b := m()\n").isSome
-- calls: wrong number or types of arguments are rejected; the accepted sample agrees with its signatures
#guard (accepted "func f(a int, b string) int {\n\treturn a\n}\nx := f(1)\n").isNone
#guard (accepted "func f(a int, b string) int {\n\treturn a\n}\nx := f(1, 2)\n").isNone
#guard (accepted "func f(a int, b string) int {\n\treturn a\n}\nx := f(1, \"s\", 3)\n").isNone
#guard (accepted "func f() int {\n\treturn f()\n}\n").isNone
#guard ((accepted sampleSrc).map (PT.sigSs [])) == some true
-- the check the parser does not make: a `return` in a nested block with a value of the wrong type (known finding)
#guard ((accepted "func f() int {\n\tif true {\n\t\treturn \"s\"\n\t}\n\treturn 1\n}\n").map PT.program) == some true

/-- **A definition never changes the type of a variable that exists on the same level** (fix 4a3f869): whenever the definition
    parser returns a statement, in any context, a written name under which the parser's lookup finds a variable `w` of the same
    level (global flag) that has a type is defined with exactly `w`'s type - in `a, b := v1, v2` the value for an existing `a`
    must have `a`'s type, as for a plain assignment.  (A name found on ANOTHER level - a global seen from a function body - is
    a new variable of the function and may have any type.) -/
theorem definition_keeps_the_type_of_an_existing_variable (fuel : Nat) (ctx : Ctx) (s s' : PSt) (st : Stmt)
    (h : evalVarDefinition fuel ctx s = .ok st s') :
    ∃ (pfx : String) (names : List Tok), (defVars st).length = names.length ∧
      ∀ i (h1 : i < names.length) (h2 : i < (defVars st).length) (w : Var),
        ctx.findVar names[i].val pfx ctx.global = some w → w.global = ctx.global → w.vt.dt ≠ .unknown →
        (defVars st)[i].vt = w.vt := by
  obtain ⟨pfx, names, short, _, h2, h3, _⟩ := def_varDefinition fuel ctx s st s' h
  exact ⟨pfx, names, h2, fun i a b w hw hg hu => (h3 i a b).2.2 w hw hg hu⟩

-- the defect the theorem excludes, and its neighbours
#guard (accepted "a := 1\na, b := \"s\", 2\n").isNone
#guard (accepted "a := 1\na, b := 5, 2\nprint(a + 1, b)\n").isSome
#guard (accepted "func two() (string, int) {\n\treturn \"x\", 1\n}\na := 1\na, b := two()\n").isNone
#guard (accepted "func two() (int, int) {\n\treturn 2, 1\n}\na := 1\na, b := two()\nprint(a, b)\n").isSome
#guard (accepted "g := 1\nfunc f() {\n\tg, h := \"s\", 3\n\tprint(g + \"x\", h)\n}\nf()\nprint(g + 1)\n").isSome

end Tsh.C06
