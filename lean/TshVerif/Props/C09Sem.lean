/-
  C09 - Multi-file programs link correctly and unused-function removal is safe: the semantic side of the removal.

  `unused_function_removal_is_safe`: the program `Parse` returns is the program it has read (all imported files and
  the main file, `parseRaw`) with the function definitions removed that the call graph does not reach; whenever every
  call in the top-level code and in the bodies of the kept functions goes to a kept function (`graphCovers`, a
  decidable condition that the check evaluates on the call graph and the statements of every program it parses),
  the removal does not change the outcome: every result of the full program (exit status, printed lines) is the
  result of the reduced program.  This is a theorem about the source semantics `Sem2/Src` for ALL programs (it
  needs no fragment: a construct the semantics gives no meaning is stuck before and after the removal), by induction
  over the fuel of the eight mutually recursive evaluation functions (`Lemmas/Sem2Clean.lean`), using that the
  semantics is monotone in its fuel (`Lemmas/Sem2Mono.lean`).

  Also here: `outcome_independent_of_fuel` - the outcome of a program does not depend on the fuel that found it.
-/
import TshVerif.Lemmas.ParserImportsPub
import TshVerif.Lemmas.Sem2Clean
import TshVerif.Sem2.Cover
namespace Tsh.C09
open Tsh Tsh.Parser Tsh.Sem2.Src

/-- the removal step of the parser is `cleanP` for the collected names -/
theorem cleanProgram_is_cleanP {used : List (String × List String)} {body p' : List Stmt} (h : cleanProgram used body = some p') :
    ∃ keep, getUsedFuncs used "" = some keep ∧ p' = cleanP keep body := by
  unfold cleanProgram at h
  cases hk : getUsedFuncs used "" with
  | none => simp [hk] at h
  | some keep =>
    simp only [hk, Option.bind_eq_bind, Option.bind_some, Option.pure_def, Option.some.injEq] at h
    refine ⟨keep, rfl, ?_⟩
    rw [← h]
    unfold cleanP
    apply List.filter_congr
    intro st _
    cases st <;> rfl

/-- **Unused-function removal is safe.** -/
theorem unused_function_removal_is_safe (fs : FileSys) (main : String) (p : Parsed) (s : PSt) (h : parse fs main = .ok p s) :
    ∃ raw, parseRaw fs main = .ok raw s ∧
      (graphCovers raw.usedFuncs raw.body = true →
        ∀ fuel r, runProgram fuel raw.body = some r → runProgram fuel p.body = some r) := by
  obtain ⟨raw, hraw, hcl⟩ := parse_eq_clean h
  refine ⟨raw, hraw, ?_⟩
  intro hg fuel r hr
  obtain ⟨keep, hk, e⟩ := cleanProgram_is_cleanP hcl
  simp only [graphCovers, hk] at hg
  rw [e]
  exact removal_safe keep raw.body hg fuel r hr

/-- the same, for any set of kept names (not only the one the parser collects) -/
theorem removal_of_uncalled_functions_is_safe (keep : List String) (p : Program) (h : callsTop keep p = true) (fuel : Nat)
    (r : Nat × List String) (hr : runProgram fuel p = some r) : runProgram fuel (cleanP keep p) = some r :=
  removal_safe keep p h fuel r hr

/-- **The outcome of a program does not depend on the fuel that found it.** -/
theorem outcome_independent_of_fuel {f1 f2 : Nat} {p : Program} {r1 r2 : Nat × List String}
    (h1 : runProgram f1 p = some r1) (h2 : runProgram f2 p = some r2) : r1 = r2 :=
  runProgram_fuel_independent h1 h2

/-- the hypotheses are satisfiable: `dead` is never called and is removed, `live` stays; the outcome is the same -/
def cleanSample : Program :=
  let int : ValueType := ⟨.int, false⟩
  let v (n : String) (g : Bool) : Var := ⟨n, int, g, false⟩
  [.funcDef "live" false [int] [v "a" false] [.ret [.binary "+" (.varEval (v "a" false)) (.intLit 1)]],
   .funcDef "dead" false [int] [] [.print [.strLit "never"], .ret [.intLit 0]],
   .print [.call "live" [int] [.intLit 41]]]

example : callsTop ["live"] cleanSample = true := by decide
example : (cleanP ["live"] cleanSample).length = 2 := by decide
#guard runProgram 50 cleanSample == some (0, ["42"])
#guard runProgram 50 (cleanP ["live"] cleanSample) == some (0, ["42"])

/-- **Private names do not cross an import**: whatever the files are, the context in which the statements of a file are
    parsed holds, from its imports, only functions and variables that are public (`pub`: first character an upper-case letter)
    in the file that defines them - so `alias.name` can resolve to nothing else, and a private or an undefined name of an
    imported file is rejected like any unknown name. -/
theorem imports_expose_only_public_names (depth : Nat) (fs : Parser.FileSys) (path : String) (importing : List String) (fuel : Nat)
    (s0 s' : Parser.PSt) (r : Parser.Ctx × List Stmt)
    (h : Parser.evalImports depth fs path importing fuel {} s0 = .ok r s') :
    (∀ e ∈ r.1.funcs, e.2.pub = true) ∧ (∀ e ∈ r.1.vars, e.2.pub = true) :=
  Parser.evalImports_pub fs path importing fuel s0 s' r h

end Tsh.C09
