import TshVerif.Model.EmitBash
namespace Tsh.C10
open Tsh Tsh.Bash

end Tsh.C10
