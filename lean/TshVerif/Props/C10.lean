import TshVerif.Model.ConvBash
namespace Tsh.C10
open Tsh Tsh.Bash

end Tsh.C10
