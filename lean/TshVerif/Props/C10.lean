/-
  C10 - Program behaviour is independent of how identifiers are spelled.

  The pinned tree does NOT have this property in general (known finding reserved-identifiers-not-rejected:
  no identifier is rejected, and user names live in the same shell namespace as the names the back-ends
  emit).  Proved here, about the naming scheme of the bash converter model, is what does hold and where
  exactly it stops:
    * `mangling_is_injective`: the local `a` of the k-th function and the local `b` of the k'-th function
      are emitted under the same shell name only if k = k' and a = b -- locals of different functions,
      and different locals of one function, never collide, whatever they are called;
    * `owned_names_start_with_underscore`: every name the converter invents (`_h<n>` helpers, `_rv<n>`
      return registers, `_fv<n>` loop flags, `_ma<i>` temporaries, `_dvc`, the helper routines and their
      scratch variables) starts with `_`, hence `plain_user_names_never_hit_owned_names`: a user
      identifier that does not start with `_` is never one of them;
    * `renaming_partial`: for identifiers that start with a letter, a renaming that keeps them apart keeps
      their emitted names apart (globals: the name itself; locals: by injectivity of the mangling);
    * the boundary, as theorems about concrete witnesses: a global called `f1_x` IS the mangled local `x`
      of the first function (`mangled_local_collides_with_global`), a user variable `_h0` IS the first
      helper (`user_name_can_be_a_helper`) -- the two collisions behind the known finding.
  Behavioural equality under renaming is decided by the renaming oracle of the check.
-/
import TshVerif.Model.ConvBash
namespace Tsh.C10
open Tsh Tsh.Tr Tsh.Bash

/-- splitting at the first `_`: digits contain none -/
theorem split_at_underscore : ∀ (l1 l2 a b : List Char), '_' ∉ l1 → '_' ∉ l2 →
    l1 ++ '_' :: a = l2 ++ '_' :: b → l1 = l2 ∧ a = b := by
  intro l1
  induction l1 with
  | nil =>
    intro l2 a b _ h2 h
    cases l2 with
    | nil => simpa using h
    | cons c l2 => simp at h; exact absurd h.1.symm (by intro hc; apply h2; simp [hc])
  | cons c l1 ih =>
    intro l2 a b h1 h2 h
    cases l2 with
    | nil => simp at h; exact absurd h.1 (by intro hc; apply h1; simp [hc])
    | cons d l2 =>
      simp at h
      obtain ⟨hc, ht⟩ := h
      obtain ⟨e1, e2⟩ := ih l2 a b (fun hm => h1 (by simp [hm])) (fun hm => h2 (by simp [hm])) ht
      exact ⟨by rw [hc, e1], e2⟩

theorem digits_inj (k k' : Nat) (h : Nat.toDigits 10 k = Nat.toDigits 10 k') : k = k' := by
  have := congrArg (fun l => Nat.ofDigitChars 10 l 0) h
  simpa using this

/-- the mangled name of a local: `f<k>_<name>` -/
def mangled (k : Nat) (name : String) : String := s!"f{k}_{name}"

theorem mangled_toList (k : Nat) (name : String) : (mangled k name).toList = 'f' :: (Nat.toDigits 10 k ++ '_' :: name.toList) := by
  simp [mangled, String.toList_append, toString]

/-- **Mangling is injective**: locals of different functions never collide. -/
theorem mangling_is_injective (k k' : Nat) (a b : String) (h : mangled k a = mangled k' b) : k = k' ∧ a = b := by
  have h' := congrArg String.toList h
  rw [mangled_toList, mangled_toList] at h'
  simp only [List.cons.injEq, true_and] at h'
  obtain ⟨e1, e2⟩ := split_at_underscore _ _ _ _ Nat.underscore_not_in_toDigits Nat.underscore_not_in_toDigits h'
  exact ⟨digits_inj k k' e1, String.toList_inj.mp e2⟩

/-- inside a function the converter uses exactly this mangling for non-global names -/
theorem local_name_is_mangled (s : St) (name : String) (h : s.funcs ≠ []) : varName s name false = mangled s.funcCounter name := by
  cases hf : s.funcs with
  | nil => exact absurd hf h
  | cons a b => simp [varName, inFunction, hf, mangled]

/-- the names the bash converter invents -/
inductive Owned : String → Prop
  | helper (n : Nat) : Owned s!"_h{n}"
  | retReg (n : Nat) : Owned s!"_rv{n}"
  | loopFlag (n : Nat) : Owned s!"_fv{n}"
  | multiTmp (n : Nat) : Owned s!"_ma{n}"
  | arrayCounter : Owned "_dvc"
  | arrayName (n : Nat) : Owned s!"_dv{n}"
  | routine (r : String) : r ∈ ["_sah", "_sch", "_ssh"] → Owned r
  | scratch (r : String) : r ∈ ["_i", "_l", "_c", "_n", "_v", "_ls", "_ll", "_ret"] → Owned r

theorem owned_names_start_with_underscore (n : String) (h : Owned n) : n.toList.head? = some '_' := by
  cases h with
  | helper k => simp [String.toList_append, toString]
  | retReg k => simp [String.toList_append, toString]
  | loopFlag k => simp [String.toList_append, toString]
  | multiTmp k => simp [String.toList_append, toString]
  | arrayCounter => rfl
  | arrayName k => simp [String.toList_append, toString]
  | routine r hr => simp at hr; rcases hr with rfl | rfl | rfl <;> rfl
  | scratch r hr => simp at hr; rcases hr with rfl | rfl | rfl | rfl | rfl | rfl | rfl | rfl <;> rfl

/-- **A user identifier that does not start with `_` is never a compiler-owned name.** -/
theorem plain_user_names_never_hit_owned_names (user owned : String) (hu : user.toList.head? ≠ some '_') (ho : Owned owned) :
    user ≠ owned := by
  intro he; subst he; exact hu (owned_names_start_with_underscore _ ho)

/-- …and a mangled local (`f…`) is not one either -/
theorem mangled_names_never_hit_owned_names (k : Nat) (name owned : String) (ho : Owned owned) : mangled k name ≠ owned := by
  apply plain_user_names_never_hit_owned_names _ _ _ ho
  rw [mangled_toList]; simp

/-- a renaming that keeps two local names apart keeps their emitted names apart (same or different functions) -/
theorem renaming_partial (ρ : String → String) (hρ : ∀ a b, ρ a = ρ b → a = b) (k k' : Nat) (a b : String)
    (h : mangled k (ρ a) = mangled k' (ρ b)) : k = k' ∧ a = b := by
  obtain ⟨hk, hab⟩ := mangling_is_injective _ _ _ _ h
  exact ⟨hk, hρ _ _ hab⟩

/-! ### the boundary (known finding reserved-identifiers-not-rejected) -/

/-- a GLOBAL called `f1_x` is emitted under the same shell name as the local `x` of the first function -/
theorem mangled_local_collides_with_global :
    varName { funcs := ["f"], funcCounter := 1 } "x" false = varName { funcs := ["f"], funcCounter := 1 } "f1_x" true := by
  decide

/-- a user variable called `_h0` is the converter's first helper variable -/
theorem user_name_can_be_a_helper : Owned "_h0" := Owned.helper 0

end Tsh.C10
