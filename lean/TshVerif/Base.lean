/-
  Base definitions shared by all models: byte strings, hex coding, decimal printing.
  Core Lean only (no Mathlib) so that the driver links as a `lean_exe`.
-/
namespace Tsh

abbrev Bytes := List UInt8

def hexDigit (n : Nat) : Char :=
  if n < 10 then Char.ofNat (48 + n) else Char.ofNat (87 + n)

def hexOfBytes (bs : Bytes) : String :=
  String.ofList (bs.flatMap fun b => [hexDigit (b.toNat / 16), hexDigit (b.toNat % 16)])

def hexVal (c : Char) : Option Nat :=
  if '0' ≤ c ∧ c ≤ '9' then some (c.toNat - 48)
  else if 'a' ≤ c ∧ c ≤ 'f' then some (c.toNat - 87)
  else if 'A' ≤ c ∧ c ≤ 'F' then some (c.toNat - 55)
  else none

def bytesOfHexChars : List Char → Option Bytes
  | [] => some []
  | [_] => none
  | a :: b :: rest => do
      let x ← hexVal a
      let y ← hexVal b
      let r ← bytesOfHexChars rest
      pure (UInt8.ofNat (x * 16 + y) :: r)

def bytesOfHex (s : String) : Option Bytes := bytesOfHexChars s.toList

def strBytes (s : String) : Bytes := s.toUTF8.toList

def bytesStr (b : Bytes) : String :=
  match String.fromUTF8? (ByteArray.mk b.toArray) with
  | some s => s
  | none => String.ofList (b.map fun x => Char.ofNat x.toNat)

def hexOfString (s : String) : String := hexOfBytes (strBytes s)

/-- ASCII byte of a character literal (used for readability in the lexer model). -/
def c2b (c : Char) : UInt8 := UInt8.ofNat c.toNat

def isDigitB (b : UInt8) : Bool := 48 ≤ b.toNat && b.toNat ≤ 57
def isAlphaB (b : UInt8) : Bool :=
  (65 ≤ b.toNat && b.toNat ≤ 90) || (97 ≤ b.toNat && b.toNat ≤ 122) || b.toNat == 95
def isIdentB (b : UInt8) : Bool := isAlphaB b || isDigitB b
def isHexB (b : UInt8) : Bool :=
  isDigitB b || (65 ≤ b.toNat && b.toNat ≤ 70) || (97 ≤ b.toNat && b.toNat ≤ 102)
def isOctB (b : UInt8) : Bool := 48 ≤ b.toNat && b.toNat ≤ 55

def hexValB (b : UInt8) : Nat :=
  if isDigitB b then b.toNat - 48
  else if 97 ≤ b.toNat then b.toNat - 87 else b.toNat - 55

/-- `l.isPrefixOf`-style test returning the remainder. -/
def stripPrefix? : Bytes → Bytes → Option Bytes
  | [], rest => some rest
  | _ :: _, [] => none
  | p :: ps, x :: xs => if p == x then stripPrefix? ps xs else none

theorem stripPrefix?_eq_some {p s r : Bytes} (h : stripPrefix? p s = some r) : s = p ++ r := by
  induction p generalizing s with
  | nil => simp [stripPrefix?] at h; simp [h]
  | cons a p ih =>
    cases s with
    | nil => simp [stripPrefix?] at h
    | cons x xs =>
      simp only [stripPrefix?] at h
      split at h
      · rename_i hx
        have := ih h
        simp at hx
        simp [hx, this]
      · simp at h

/-- UTF-8 encoding of a code point (as Go's `string(rune)` / `utf8.AppendRune`). -/
def utf8Encode (cp : Nat) : Bytes :=
  if cp < 0x80 then [UInt8.ofNat cp]
  else if cp < 0x800 then [UInt8.ofNat (0xC0 + cp / 64), UInt8.ofNat (0x80 + cp % 64)]
  else if cp < 0x10000 then
    [UInt8.ofNat (0xE0 + cp / 4096), UInt8.ofNat (0x80 + (cp / 64) % 64), UInt8.ofNat (0x80 + cp % 64)]
  else
    [UInt8.ofNat (0xF0 + cp / 262144), UInt8.ofNat (0x80 + (cp / 4096) % 64),
     UInt8.ofNat (0x80 + (cp / 64) % 64), UInt8.ofNat (0x80 + cp % 64)]

end Tsh
