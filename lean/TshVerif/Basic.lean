def hello := "world"
