/-
  What bash's `read` builtin assigns when it is given ONE variable name (Bash manual 4.2, `read`): the line (without its terminating
  newline) is, unless `-r` is given, first freed of backslash escapes; then, because there is a single name, the whole line is
  assigned to it minus the leading and trailing IFS WHITESPACE characters (blank, tab, newline as far as they are in IFS).
  With an empty IFS (`IFS= read ...`) nothing is stripped.  Approximation: without `-r` a backslash-escaped blank at the
  end of the line survives the stripping in bash; this model strips it.  The converter only ever emits `-r`.

  Tied to /bin/bash by the C08 and C17 checks: every string of their sweep (leading / trailing blanks and tabs, backslashes, quotes
  included) goes through `input()` and `input("prompt")` of an emitted script under the real shell and must arrive byte for byte.
-/
namespace Tsh.BashRead

/-- IFS whitespace: a character of IFS that is a blank, a tab or a newline -/
def isIfsWs (ifs : List Char) (c : Char) : Bool := ifs.contains c && (c == ' ' || c == '\t' || c == '\n')

/-- without `-r`: a backslash quotes the next character and disappears -/
def unescape : List Char → List Char
  | [] => []
  | '\\' :: c :: rest => c :: unescape rest
  | c :: rest => if c == '\\' then unescape rest else c :: unescape rest

/-- options of one `read` command with a single name -/
structure ReadCmd where
  ifs : List Char          -- value of IFS in effect for the command
  raw : Bool               -- `-r`
  name : String
deriving Repr, DecidableEq

/-- the value `read` assigns to its single name for the input line `line` -/
def readOne (ifs : List Char) (raw : Bool) (line : List Char) : List Char :=
  let l := if raw then line else unescape line
  ((l.dropWhile (isIfsWs ifs)).reverse.dropWhile (isIfsWs ifs)).reverse

def ReadCmd.value (c : ReadCmd) (line : List Char) : List Char := readOne c.ifs c.raw line

/-- bash's default IFS -/
def defaultIfs : List Char := [' ', '\t', '\n']

theorem dropWhile_false {α} (l : List α) : l.dropWhile (fun _ => false) = l := by
  cases l <;> simp [List.dropWhile]

theorem isIfsWs_nil : isIfsWs [] = fun _ => false := by
  funext c; simp [isIfsWs]

/-- **`IFS= read -r name` assigns the line as it is**, whatever it contains -/
theorem readOne_empty_ifs_raw (line : List Char) : readOne [] true line = line := by
  simp [readOne, isIfsWs_nil, dropWhile_false]

end Tsh.BashRead
