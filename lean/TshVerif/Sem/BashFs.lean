/-
  What the three file lines of the bash back-end do to a file system, and the LINE STORE they implement.

    `printf '%s\n' "c" > "p"`     the file named p holds c and one line feed afterwards (created if need be)
    `printf '%s\n' "c" >> "p"`    c and one line feed are put behind what the file holds (created if need be)
    `h="$(cat < "p")"`            h is what the file holds WITHOUT ITS TRAILING LINE FEEDS (all of them: command substitution)
    `[ -e "p" ]`                  true exactly when p names something that exists

  A file system is, as far as these lines go, a partial map from FILES to contents.  Which file a path names is the operating
  system's business (`a`, `./a`, `d/../a` are one file); the model is parametric in the type `F` of files and the theorems in
  Props/C17Sem take the resolution `String → F` as a parameter.  Not modelled: directories (for `-e` they exist, for the
  redirections they are errors), missing parent directories, permissions, devices - a redirection that fails leaves the line
  without effect on the files and puts a message on stderr; the theorems speak about redirections that succeed.

  Tied to /bin/bash and a real directory tree by the C17 check: every history of write / append / read / exists it generates is
  run through `runOps` / `readSubst` / `existsTest` below (request FS of the driver) next to the emitted script.
-/
namespace Tsh.BashFs

abbrev Bytes := List Char

/-- all trailing line feeds removed: what `$( … )` does to the output of the command inside -/
def stripNl (b : Bytes) : Bytes := (b.reverse.dropWhile (· == '\n')).reverse

/-- a text command substitution hands back as it is: empty, or not ending in a line feed -/
def noTrailingNl (b : Bytes) : Bool := b.getLast? != some '\n'

/-- contents of the files; `none`: there is no such file -/
structure Fs (F : Type) where
  content : F → Option Bytes

variable {F : Type} [DecidableEq F]

def Fs.put (fs : Fs F) (f : F) (b : Bytes) : Fs F := ⟨fun g => if g = f then some b else fs.content g⟩

/-- `printf '%s\n' "c" > "p"` -/
def truncWrite (fs : Fs F) (f : F) (c : Bytes) : Fs F := fs.put f (c ++ ['\n'])

/-- `printf '%s\n' "c" >> "p"` -/
def appendWrite (fs : Fs F) (f : F) (c : Bytes) : Fs F := fs.put f ((fs.content f).getD [] ++ (c ++ ['\n']))

/-- the whole line `if [ "a" -eq "1" ]; then printf … >> "p"; else printf … > "p"; fi`, given what its three words
    expand to (`flag`: the number the first word reads as; a word that is no number makes `[` fail, i.e. the else branch) -/
def writeLine (flag : Option Int) (fs : Fs F) (f : F) (c : Bytes) : Fs F :=
  if flag = some 1 then appendWrite fs f c else truncWrite fs f c

/-- `$(cat < "p")`; `none`: no such file (the redirection fails, the script goes on with an empty value and a message) -/
def readSubst (fs : Fs F) (f : F) : Option Bytes := (fs.content f).map stripNl

/-- `[ -e "p" ]` -/
def existsTest (fs : Fs F) (f : F) : Bool := (fs.content f).isSome

/-! ### the abstract line store -/

/-- what the user thinks of: per file the list of lines written, oldest first -/
structure Store (F : Type) where
  lines : F → Option (List Bytes)

def Store.write (st : Store F) (f : F) (s : Bytes) : Store F := ⟨fun g => if g = f then some [s] else st.lines g⟩
def Store.append (st : Store F) (f : F) (s : Bytes) : Store F :=
  ⟨fun g => if g = f then some ((st.lines f).getD [] ++ [s]) else st.lines g⟩

/-- the bytes of a list of lines: every line followed by one line feed -/
def bytesOf (ls : List Bytes) : Bytes := (ls.map (· ++ ['\n'])).flatten

/-- a file system that holds exactly a line store -/
def Holds (fs : Fs F) (st : Store F) : Prop := ∀ f, fs.content f = (st.lines f).map bytesOf

/-- one operation of a history: (file, text, append?) -/
structure Op (F : Type) where
  file : F
  text : Bytes
  append : Bool

def stepFs (fs : Fs F) (o : Op F) : Fs F := writeLine (if o.append then some 1 else some 0) fs o.file o.text
def stepStore (st : Store F) (o : Op F) : Store F := if o.append then st.append o.file o.text else st.write o.file o.text

def runOps (fs : Fs F) (ops : List (Op F)) : Fs F := ops.foldl stepFs fs
def runStore (st : Store F) (ops : List (Op F)) : Store F := ops.foldl stepStore st

end Tsh.BashFs
