/-
  A semantics of the Batch scripts the converter emits, for the scalar fragment, as cmd.exe's documented rules
  give it - the counterpart of `Sem/Bash` for the other target:

  * `scanD` / `expandD`   run-time `!name!` expansion of a text (delayed expansion); `%`, `^`, `"` and line
                          breaks are not covered (`none`): the string alphabet of the property is cmd-neutral
  * `canonInt`            what `set /A` and a numeric `IF` read as a number: canonical decimal spellings only
                          (a leading zero would be octal), 32 bits, and NOT -2^31 (cmd.exe cannot re-read it:
                          known finding minint32-not-rereadable)
  * `arith32`             `set /A` on two operands: 32-bit two's complement, truncated division
  * `stepB`               one line that is not control flow: `set`, `set /A`, the one-line `IF … (set) else set`
                          forms of comparisons, `!`, `&&`, `||`, the call of the echo helper (a primitive: its
                          text is fixed), `goto :end` after a panic
  * `runLinesB`           straight-line execution (what the theorem of Props/C05Sem talks about)
  * `runPC`               a program-counter machine over the whole emitted script with cmd.exe's rules for
                          parenthesised blocks and `goto` (forward-then-wrap label search): executable only,
                          run next to the cmd model of lib/cmdsim.py and the 32-bit reference in every C05 run

  Defined on the structured lines of `Model/ConvBatch`; that cmd.exe reads the rendered text as these lines is
  outside this file (as for bash) and is validated by lib/cmdsim.py, which works on the text.
-/
import TshVerif.Model.ConvBatch
import TshVerif.Sem.Bash
namespace Tsh.SemB
open Tsh Tsh.Batch Tsh.Sem

/-- Scanner for delayed expansion.  Mode `none`: ordinary text; mode `some acc`: between two `!` with the
    name read so far.  A variable that is not defined expands to nothing (the store maps it to ""). -/
def scanD (ρ : Store) : Option (List Char) → List Char → Option (List Char)
  | none, [] => some []
  | some _, [] => none
  | some acc, c :: rest =>
      if c == '!' then
        if validName acc then (scanD ρ none rest).map (fun t => (ρ (String.ofList acc)).toList ++ t) else none
      else scanD ρ (some (acc ++ [c])) rest
  | none, c :: rest =>
      if c == '!' then scanD ρ (some []) rest
      else if c == '^' || c == '%' || c == '"' || c == '\n' || c == '\r' then none
      else (scanD ρ none rest).map (fun t => c :: t)

def expandD (ρ : Store) (t : String) : Option String := (scanD ρ none t.toList).map String.ofList

def wrap32 (n : Int) : Int := (n + 2147483648) % 4294967296 - 2147483648

/-- numbers cmd.exe reads back from their decimal spelling -/
def readable (n : Int) : Bool := decide (-2147483647 ≤ n) && decide (n ≤ 2147483647)

/-- a canonical decimal spelling of a readable number -/
def canonInt (s : String) : Option Int :=
  match s.toInt? with
  | some n => if readable n && toString n == s then some n else none
  | none => none

def arith32 (op : String) (a b : Int) : Option Int :=
  if op == "+" then some (wrap32 (a + b))
  else if op == "-" then some (wrap32 (a - b))
  else if op == "*" then some (wrap32 (a * b))
  else if op == "/" then (if b == 0 then none else some (wrap32 (a.tdiv b)))
  else if op == "%" then (if b == 0 then none else some (wrap32 (a.tmod b)))
  else none

def expandNum (ρ : Store) (t : String) : Option Int := (expandD ρ t).bind canonInt

def numIf (os : String) (a b : Int) : Option Bool :=
  if os == "equ" then some (a == b)
  else if os == "neq" then some (a != b)
  else if os == "gtr" then some (decide (a > b))
  else if os == "geq" then some (decide (a ≥ b))
  else if os == "lss" then some (decide (a < b))
  else if os == "leq" then some (decide (a ≤ b))
  else none

/-- `IF qlq os qrq`: with quotes a comparison of strings (only `equ` / `neq` are emitted), without quotes a
    comparison of numbers (both operands are numbers in every line the converter emits) -/
def evalIf (ρ : Store) (q l os r : String) : Option Bool :=
  if q == "\"" then
    match expandD ρ l, expandD ρ r with
    | some a, some b => if os == "equ" then some (a == b) else if os == "neq" then some (a != b) else none
    | _, _ => none
  else if q == "" then
    match expandNum ρ l, expandNum ρ r with
    | some a, some b => numIf os a b
    | _, _ => none
  else none

/-- `p` occurs in `t` as a contiguous piece -/
def hasInfix (p : List Char) : List Char → Bool
  | [] => p.isEmpty
  | c :: t => p.isPrefixOf (c :: t) || hasInfix p t

/-- what `echo <text>` prints as a line: not every text (blank texts and `on` / `off` switch the echo mode,
    `/?` prints the help) -/
def echoSafe (v : String) : Bool :=
  v == "" ||
  (let t := v.toList.filter (fun c => c != ' ' && c != '\t')
   !t.isEmpty && !(v.toList.head? == some ' ') && !(v.toList.head? == some '\t') &&
   String.ofList (t.map Char.toLower) != "on" && String.ofList (t.map Char.toLower) != "off" &&
   !(hasInfix ['/', '?'] v.toList))

def asCode (s : String) : Option Nat :=
  match s.toNat? with
  | some n => if toString n == s then some n else none
  | none => none

/-- one line that is not control flow; `none`: not covered by this model -/
def stepB (l : BLine) (c : Cfg) : Option (Out × Cfg) :=
  match l with
  | .set n v =>
      match expandD c.ρ v with
      | some t => some (.normal, { c with ρ := c.ρ.set n t })
      | none => none
  | .setA n l op r =>
      match expandNum c.ρ l, expandNum c.ρ r with
      | some a, some b =>
          match arith32 op a b with
          | some x => some (.normal, { c with ρ := c.ρ.set n (toString x) })
          | none => none
      | _, _ => none
  | .ifSet q l os r h a b =>
      if bit a && bit b then
        match evalIf c.ρ q l os r with
        | some v => some (.normal, { c with ρ := c.ρ.set h (if v then a else b) })
        | none => none
      else none
  | .andSet l r h =>
      match expandNum c.ρ l, expandNum c.ρ r with
      | some a, some b => some (.normal, { c with ρ := c.ρ.set h (if a == 1 && b == 1 then "1" else "0") })
      | _, _ => none
  | .orSet l r h =>
      match expandNum c.ρ l, expandNum c.ρ r with
      | some a, some b => some (.normal, { c with ρ := c.ρ.set h (if a == 1 || b == 1 then "1" else "0") })
      | _, _ => none
  | .call n args =>
      if n == "_ech" && args.isEmpty then
        (if echoSafe (c.ρ "_fa0") then some (.normal, { c with out := c.out ++ [c.ρ "_fa0"] }) else none)
      else none
  | .goto n =>
      if n == "end" then
        match asCode (c.ρ "_e") with
        | some k => some (.exit k, c)
        | none => none
      else none
  | .raw t => if t == "rem No operation" then some (.normal, c) else none
  | _ => none

/-- lines one after the other, up to the first that ends the script -/
def runLinesB : List BLine → Cfg → Option (Out × Cfg)
  | [], c => some (.normal, c)
  | l :: ls, c =>
      match stepB l c with
      | some (.normal, c') => runLinesB ls c'
      | r => r

/-! ### the whole script as cmd.exe runs it (executable; driver only) -/

def closer : BLine → Bool
  | .close | .elseOpen | .elseIfOpen _ => true
  | _ => false

def opener : BLine → Bool
  | .opn _ | .elseOpen | .elseIfOpen _ => true
  | _ => false

/-- index of the line that closes the block whose first line is `i` (the first closer at depth 0) -/
def blockEnd (ls : Array BLine) : Nat → Nat → Nat → Option Nat
  | 0, _, _ => none
  | f + 1, i, depth =>
      if h : i < ls.size then
        let l := ls[i]
        if closer l && depth == 0 then some i
        else
          let d1 := if closer l then depth - 1 else depth
          let d2 := if opener l then d1 + 1 else d1
          blockEnd ls f (i + 1) d2
      else none

def labelName : BLine → Option String
  | .label n => some n
  | .clabel n => some n
  | _ => none

/-- `goto`: the first line after position `pos` that defines the label, else the first one of the file -/
def findLabel (ls : Array BLine) (name : String) (pos : Nat) : Option Nat :=
  let idx := (List.range ls.size).filter (fun i => (ls[i]? >>= labelName) == some name)
  match idx.find? (fun i => i > pos) with
  | some i => some i
  | none => idx.head?

def stripPrefix (p t : List Char) : Option (List Char) := if p.isPrefixOf t then some (t.drop p.length) else none
def stripSuffix (p t : List Char) : Option (List Char) := if p.isSuffixOf t then some (t.take (t.length - p.length)) else none

/-- the condition of a block line: `if "c" equ "1" (` or `if defined v (` -/
def blockCond (ρ : Store) (t : String) : Option Bool :=
  match stripPrefix "if defined ".toList t.toList with
  | some rest => (stripSuffix " (".toList rest).map (fun v => ρ (String.ofList v) != "")
  | none =>
      match stripPrefix "if \"".toList t.toList with
      | some rest =>
          match stripSuffix "\" equ \"1\" (".toList rest with
          | some c => (expandD ρ (String.ofList c)).map (· == "1")
          | none => none
      | none => none

def prologue (t : String) : Bool :=
  t == "@echo off" || t == "setlocal EnableDelayedExpansion" || t == "setlocal" || t == "(set LF=^" || t == "" ||
  t.startsWith "::"

mutual
/-- run from line `pc` -/
def runPC (ls : Array BLine) : Nat → Nat → Cfg → Option (Out × Cfg)
  | 0, _, _ => none
  | f + 1, pc, c =>
      if h : pc < ls.size then
        match ls[pc] with
        | .opn t => enter ls f pc t c
        | .close => runPC ls f (pc + 1) c
        | .elseOpen | .elseIfOpen _ => skipChain ls f (pc + 1) c        -- the branch before it ran to its end
        | .label n =>
            if n == "end" then
              match asCode (c.ρ "_e") with
              | some 0 => some (.normal, c)
              | some k => some (.exit k, c)
              | none => none
            else runPC ls f (pc + 1) c
        | .clabel _ => runPC ls f (pc + 1) c
        | .goto n =>
            match findLabel ls n pc with
            | some i => runPC ls f i c
            | none => none
        | .cgoto n =>
            match findLabel ls n pc with
            | some i => runPC ls f i c
            | none => none
        | .raw t =>
            if prologue t then runPC ls f (pc + 1) c
            else if t == ")" then runPC ls f (pc + 1) c                 -- end of the LF definition
            else match stepB (.raw t) c with
              | some (.normal, c') => runPC ls f (pc + 1) c'
              | r => r
        | l =>
            match stepB l c with
            | some (.normal, c') => runPC ls f (pc + 1) c'
            | r => r
      else some (.normal, c)
/-- a block line with condition text `t` at `pc` -/
def enter (ls : Array BLine) : Nat → Nat → String → Cfg → Option (Out × Cfg)
  | 0, _, _, _ => none
  | f + 1, pc, t, c =>
      match blockCond c.ρ t with
      | some true => runPC ls f (pc + 1) c
      | some false =>
          match blockEnd ls (ls.size + 1) (pc + 1) 0 with
          | some j =>
              match ls[j]? with
              | some .close => runPC ls f (j + 1) c
              | some .elseOpen => runPC ls f (j + 1) c
              | some (.elseIfOpen t') => enter ls f j t' c
              | _ => none
          | none => none
      | none => none
/-- after a branch that ran to its end: behind the last block of the chain -/
def skipChain (ls : Array BLine) : Nat → Nat → Cfg → Option (Out × Cfg)
  | 0, _, _ => none
  | f + 1, pc, c =>
      match blockEnd ls (ls.size + 1) pc 0 with
      | some j =>
          match ls[j]? with
          | some .close => runPC ls f (j + 1) c
          | some _ => skipChain ls f (j + 1) c
          | none => none
      | none => none
end

/-- run a whole script: printed lines and how it ends -/
def run (fuel : Nat) (ls : List BLine) : Option (Out × List String) :=
  match runPC ls.toArray fuel 0 Cfg.init with
  | some (o, c) => some (o, c.out)
  | none => none

/-- a line that is not structural: no block bracket, no construct label, no construct jump, no label -/
def plainB : BLine → Bool
  | .opn _ | .close | .elseOpen | .elseIfOpen _ | .clabel _ | .cgoto _ | .label _ => false
  | _ => true

end Tsh.SemB
