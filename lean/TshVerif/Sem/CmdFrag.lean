/-
  The straight-line part of the scalar fragment: definitions and assignments (single and simultaneous), `print`, and a
  `panic` as the last statement - the statements whose Batch lines contain no label, jump or block.
  (Fragment of the theorem in Props/C05Sem.  Which EXPRESSIONS are covered is not part of this predicate: the source
  semantics `Sem/Src32` gives no result for an expression outside the scalar fragment, and the theorem speaks about the
  runs that have a result.)
-/
import TshVerif.Sem.Src32
namespace Tsh.C05S
open Tsh Tsh.Tr Tsh.Sem

def straightStmt : Stmt → Bool
  | .varDef vars vals => vars.length == vals.length && !vars.isEmpty && vars.all (fun x => goodName x.name)
  | .assign vars vals => vars.length == vals.length && !vars.isEmpty && vars.all (fun x => goodName x.name)
  | .print _ => true
  | _ => false

def straight : List Stmt → Bool
  | [] => true
  | [.panic _] => true
  | s :: rest => straightStmt s && straight rest

mutual
/-- no loop, `break` or `continue` (the part of the scalar fragment whose Batch lines are if-chains and simple lines) -/
def noLoopStmt : Stmt → Bool
  | .ifS _ body elifs els => noLoopStmts body && noLoopElifs elifs && noLoopStmts els
  | .forS _ _ _ _ => false
  | .brk => false
  | .cont => false
  | _ => true
def noLoopStmts : List Stmt → Bool
  | [] => true
  | s :: rest => noLoopStmt s && noLoopStmts rest
def noLoopElifs : List (Expr × List Stmt) → Bool
  | [] => true
  | (_, b) :: rest => noLoopStmts b && noLoopElifs rest
end

/-- the increment of a loop is a definition or an assignment (what the grammar allows; the Batch converter names the loop's
    flag by the loop COUNTER when it closes the increment block, so an increment that contained a loop would get the wrong flag) -/
def simpleIncr : Option Stmt → Bool
  | none => true
  | some (.varDef _ _) => true
  | some (.assign _ _) => true
  | _ => false

mutual
def simpleLoopsStmt : Stmt → Bool
  | .ifS _ body elifs els => simpleLoopsStmts body && simpleLoopsElifs elifs && simpleLoopsStmts els
  | .forS init _ incr body => simpleLoopsOpt init && simpleIncr incr && simpleLoopsStmts body
  | _ => true
def simpleLoopsStmts : List Stmt → Bool
  | [] => true
  | s :: rest => simpleLoopsStmt s && simpleLoopsStmts rest
def simpleLoopsElifs : List (Expr × List Stmt) → Bool
  | [] => true
  | (_, b) :: rest => simpleLoopsStmts b && simpleLoopsElifs rest
def simpleLoopsOpt : Option Stmt → Bool
  | none => true
  | some s => simpleLoopsStmt s
end

end Tsh.C05S
