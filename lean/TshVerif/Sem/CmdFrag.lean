/-
  The straight-line part of the scalar fragment: definitions, single and simultaneous assignments, print, panic -
  the statements whose Batch lines contain no label, jump or block.  (Fragment of the theorem in Props/C05Sem.)
-/
import TshVerif.Sem.Src32
namespace Tsh.C05S
open Tsh Tsh.Tr Tsh.Sem

def straightStmt : Stmt → Bool
  | .varDef vars vals => Src.fragStmt (.varDef vars vals)
  | .assign vars vals => Src.fragStmt (.assign vars vals)
  | .print es => es.all Src.fragExpr
  | .panic e => Src.fragExpr e
  | _ => false

def straight (p : List Stmt) : Bool := p.all straightStmt

end Tsh.C05S
