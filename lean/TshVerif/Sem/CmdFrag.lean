/-
  The straight-line part of the scalar fragment: definitions and assignments (single and simultaneous), `print`, and a
  `panic` as the last statement - the statements whose Batch lines contain no label, jump or block.
  (Fragment of the theorem in Props/C05Sem.  Which EXPRESSIONS are covered is not part of this predicate: the source
  semantics `Sem/Src32` gives no result for an expression outside the scalar fragment, and the theorem speaks about the
  runs that have a result.)
-/
import TshVerif.Sem.Src32
namespace Tsh.C05S
open Tsh Tsh.Tr Tsh.Sem

def straightStmt : Stmt → Bool
  | .varDef vars vals => vars.length == vals.length && !vars.isEmpty && vars.all (fun x => goodName x.name)
  | .assign vars vals => vars.length == vals.length && !vars.isEmpty && vars.all (fun x => goodName x.name)
  | .print _ => true
  | _ => false

def straight : List Stmt → Bool
  | [] => true
  | [.panic _] => true
  | s :: rest => straightStmt s && straight rest

mutual
/-- no loop, `break` or `continue` (the part of the scalar fragment whose Batch lines are if-chains and simple lines) -/
def noLoopStmt : Stmt → Bool
  | .ifS _ body elifs els => noLoopStmts body && noLoopElifs elifs && noLoopStmts els
  | .forS _ _ _ _ => false
  | .brk => false
  | .cont => false
  | _ => true
def noLoopStmts : List Stmt → Bool
  | [] => true
  | s :: rest => noLoopStmt s && noLoopStmts rest
def noLoopElifs : List (Expr × List Stmt) → Bool
  | [] => true
  | (_, b) :: rest => noLoopStmts b && noLoopElifs rest
end

end Tsh.C05S
