/-
  Block structure of the Batch scripts for the scalar fragment, and its meaning.

  cmd.exe has no structured control flow: the converter emits parenthesised `if` blocks, labels and `goto`.  A `goto`
  abandons every open block and continues after the label; so

    * `goto :<label of the chain>` at the end of a branch of an if-chain leaves the chain (the label is the line after it);
    * `goto :<head label of the loop>` at the end of a loop body (and as `continue`) starts the next round;
    * `goto :<end label of the loop>` (`break`) leaves the loop - the label is the line after its block;
    * a block whose condition is false is skipped up to its `)` (or its next `) else`).

  `BCmd` is the tree of these constructs, `flats` the lines it stands for - the labels of `break` / `continue` are those of
  the innermost enclosing loop BY CONSTRUCTION (`ctx`), chain labels and loop numbers are data of the node - and `ExecB`
  the big-step meaning under the rules above.  That cmd.exe executes the line list `flats cmds` as `ExecB` says - given
  that the labels are pairwise different and every jump resolves, which `C16.batch_construct_labels_unique` /
  `batch_construct_jumps_resolve` prove for every script - is the structured reading of the rules; the line-level machine
  `Sem/Cmd.runPC` and lib/cmdsim.py execute the same scripts without it in every run.
-/
import TshVerif.Sem.Cmd
namespace Tsh.SemB
open Tsh Tsh.Batch Tsh.Sem

def forLabel (n : Nat) : String := s!"_f{n}"
def endLabel (n : Nat) : String := s!"_e{n}"

inductive BCmd
  | simple (l : BLine)
  /-- `if defined _fv<n> (` body `)` : the guarded increment of loop `n` -/
  | guarded (n : Nat) (body : List BCmd)
  /-- an if-chain with end label `lbl`: condition operand and body of the first branch, of the else-if branches, else body -/
  | chain (lbl : String) (c : String) (thn : List BCmd) (elifs : List (String × List BCmd)) (els : Option (List BCmd))
  /-- loop number `n` (labels `_f<n>` / `_e<n>`): the lines in front of the test, the condition operand, the body -/
  | loop (n : Nat) (pre : List BCmd) (c : String) (body : List BCmd)
  | brk
  | cont

/-- labels of the innermost enclosing loop: (head, end) -/
abbrev LCtx := Option (String × String)

mutual
def flat (ctx : LCtx) : BCmd → List BLine
  | .simple l => [l]
  | .guarded n body => .opn ("if defined " ++ flagName n ++ " (") :: (flats ctx body ++ [.close])
  | .chain lbl c thn elifs els =>
      .opn (ifStartLine c) :: (flats ctx thn ++ (flatElifs ctx lbl elifs ++ (flatElse ctx lbl els ++ [.cgoto lbl, .close, .clabel lbl])))
  | .loop n pre c body =>
      .clabel (forLabel n) :: (flats (some (forLabel n, endLabel n)) pre ++
        (.opn (ifStartLine c) :: (flats (some (forLabel n, endLabel n)) body ++ [.cgoto (forLabel n), .close, .clabel (endLabel n)])))
  | .brk => [.cgoto (match ctx with | some (_, e) => e | none => "")]
  | .cont => [.cgoto (match ctx with | some (h, _) => h | none => "")]
def flats (ctx : LCtx) : List BCmd → List BLine
  | [] => []
  | c :: cs => flat ctx c ++ flats ctx cs
def flatElifs (ctx : LCtx) (lbl : String) : List (String × List BCmd) → List BLine
  | [] => []
  | (c, b) :: rest => .cgoto lbl :: .elseIfOpen (ifStartLine c) :: (flats ctx b ++ flatElifs ctx lbl rest)
def flatElse (ctx : LCtx) (lbl : String) : Option (List BCmd) → List BLine
  | none => []
  | some b => .cgoto lbl :: .elseOpen :: flats ctx b
end

/-- the test of a block line `if "c" equ "1" (` -/
def guardB (ρ : Store) (c : String) : Option Bool := (expandD ρ c).map (· == "1")

mutual
inductive ExecB : BCmd → Cfg → Out → Cfg → Prop
  | simple {l c o c'} : stepB l c = some (o, c') → ExecB (.simple l) c o c'
  | guardedRun {n body c o c'} : c.ρ (flagName n) ≠ "" → ExecBs body c o c' → ExecB (.guarded n body) c o c'
  | guardedSkip {n body c} : c.ρ (flagName n) = "" → ExecB (.guarded n body) c .normal c
  | chainTrue {lbl g thn elifs els c o c'} : guardB c.ρ g = some true → ExecBs thn c o c' → ExecB (.chain lbl g thn elifs els) c o c'
  | chainFalse {lbl g thn elifs els c o c'} : guardB c.ρ g = some false → ExecElifsB elifs els c o c' → ExecB (.chain lbl g thn elifs els) c o c'
  | loop {n pre g body c o c'} : ExecLoopB pre g body c o c' → ExecB (.loop n pre g body) c o c'
  | brk {c} : ExecB .brk c .brk c
  | cont {c} : ExecB .cont c .cont c
inductive ExecBs : List BCmd → Cfg → Out → Cfg → Prop
  | nil {c} : ExecBs [] c .normal c
  | cons {x xs c c1 o c'} : ExecB x c .normal c1 → ExecBs xs c1 o c' → ExecBs (x :: xs) c o c'
  | stop {x xs c o c'} : ExecB x c o c' → o ≠ .normal → ExecBs (x :: xs) c o c'
inductive ExecElifsB : List (String × List BCmd) → Option (List BCmd) → Cfg → Out → Cfg → Prop
  | none {c} : ExecElifsB [] none c .normal c
  | els {b c o c'} : ExecBs b c o c' → ExecElifsB [] (some b) c o c'
  | hit {g b rest els c o c'} : guardB c.ρ g = some true → ExecBs b c o c' → ExecElifsB ((g, b) :: rest) els c o c'
  | miss {g b rest els c o c'} : guardB c.ρ g = some false → ExecElifsB rest els c o c' → ExecElifsB ((g, b) :: rest) els c o c'
/-- one round: the lines in front of the test, the test, the body; `goto` head = next round, `goto` end = leave -/
inductive ExecLoopB : List BCmd → String → List BCmd → Cfg → Out → Cfg → Prop
  | done {pre g body c c1} : ExecBs pre c .normal c1 → guardB c1.ρ g = some false → ExecLoopB pre g body c .normal c1
  | next {pre g body c c1 c2 o c'} : ExecBs pre c .normal c1 → guardB c1.ρ g = some true → ExecBs body c1 .normal c2 →
      ExecLoopB pre g body c2 o c' → ExecLoopB pre g body c o c'
  | cont {pre g body c c1 c2 o c'} : ExecBs pre c .normal c1 → guardB c1.ρ g = some true → ExecBs body c1 .cont c2 →
      ExecLoopB pre g body c2 o c' → ExecLoopB pre g body c o c'
  | brk {pre g body c c1 c'} : ExecBs pre c .normal c1 → guardB c1.ρ g = some true → ExecBs body c1 .brk c' →
      ExecLoopB pre g body c .normal c'
  | exit {pre g body c c1 k c'} : ExecBs pre c .normal c1 → guardB c1.ρ g = some true → ExecBs body c1 (.exit k) c' →
      ExecLoopB pre g body c (.exit k) c'
end

end Tsh.SemB
