/-
  Block structure of the Batch scripts for the scalar fragment, and its meaning.

  cmd.exe has no structured control flow: the converter emits parenthesised `if` blocks, labels and `goto`.  A `goto`
  abandons every open block and continues after the label; so

    * `goto :<label of the chain>` at the end of a branch of an if-chain leaves the chain (the label is the line after it);
    * `goto :<head label of the loop>` at the end of a loop body (and as `continue`) starts the next round;
    * `goto :<end label of the loop>` (`break`) leaves the loop - the label is the line after its block;
    * a block whose condition is false is skipped up to its `)` (or its next `) else`).

  `BCmd` is the tree of these constructs, `flats` the lines it stands for - the labels of `break` / `continue` are those of
  the innermost enclosing loop BY CONSTRUCTION (`ctx`), chain labels and loop numbers are data of the node - and `ExecB`
  the big-step meaning under the rules above.  That cmd.exe executes the line list `flats cmds` as `ExecB` says - given
  that the labels are pairwise different and every jump resolves, which `C16.batch_construct_labels_unique` /
  `batch_construct_jumps_resolve` prove for every script - is the structured reading of the rules; the line-level machine
  `Sem/Cmd.runPC` and lib/cmdsim.py execute the same scripts without it in every run.
-/
import TshVerif.Sem.Cmd
namespace Tsh.SemB
open Tsh Tsh.Batch Tsh.Sem

def forLabel (n : Nat) : String := s!"_f{n}"
def endLabel (n : Nat) : String := s!"_e{n}"

inductive BCmd
  | simple (l : BLine)
  /-- `if defined _fv<n> (` body `)` : the guarded increment of loop `n` -/
  | guarded (n : Nat) (body : List BCmd)
  /-- an if-chain with end label `lbl`: condition operand and body of the first branch, of the else-if branches, else body -/
  | chain (lbl : String) (c : String) (thn : List BCmd) (elifs : List (String × List BCmd)) (els : Option (List BCmd))
  /-- loop number `n` (labels `_f<n>` / `_e<n>`): the lines in front of the test, the condition operand, the body -/
  | loop (n : Nat) (pre : List BCmd) (c : String) (body : List BCmd)
  | brk
  | cont

/-- labels of the innermost enclosing loop: (head, end) -/
abbrev LCtx := Option (String × String)

mutual
def flat (ctx : LCtx) : BCmd → List BLine
  | .simple l => [l]
  | .guarded n body => .opn ("if defined " ++ flagName n ++ " (") :: (flats ctx body ++ [.close])
  | .chain lbl c thn elifs els =>
      .opn (ifStartLine c) :: (flats ctx thn ++ (flatElifs ctx lbl elifs ++ (flatElse ctx lbl els ++ [.cgoto lbl, .close, .clabel lbl])))
  | .loop n pre c body =>
      .clabel (forLabel n) :: (flats (some (forLabel n, endLabel n)) pre ++
        (.opn (ifStartLine c) :: (flats (some (forLabel n, endLabel n)) body ++ [.cgoto (forLabel n), .close, .clabel (endLabel n)])))
  | .brk => [.cgoto (match ctx with | some (_, e) => e | none => "")]
  | .cont => [.cgoto (match ctx with | some (h, _) => h | none => "")]
def flats (ctx : LCtx) : List BCmd → List BLine
  | [] => []
  | c :: cs => flat ctx c ++ flats ctx cs
def flatElifs (ctx : LCtx) (lbl : String) : List (String × List BCmd) → List BLine
  | [] => []
  | (c, b) :: rest => .cgoto lbl :: .elseIfOpen (ifStartLine c) :: (flats ctx b ++ flatElifs ctx lbl rest)
def flatElse (ctx : LCtx) (lbl : String) : Option (List BCmd) → List BLine
  | none => []
  | some b => .cgoto lbl :: .elseOpen :: flats ctx b
end

/-! ### well-formed trees: the simple lines are not structural -/

mutual
def wfB : BCmd → Bool
  | .simple l => plainB l
  | .guarded _ body => wfBs body
  | .chain _ _ thn elifs els => wfBs thn && wfElifs elifs && wfElse els
  | .loop _ pre _ body => wfBs pre && wfBs body
  | .brk => true
  | .cont => true
def wfBs : List BCmd → Bool
  | [] => true
  | x :: xs => wfB x && wfBs xs
def wfElifs : List (String × List BCmd) → Bool
  | [] => true
  | (_, b) :: rest => wfBs b && wfElifs rest
def wfElse : Option (List BCmd) → Bool
  | none => true
  | some b => wfBs b
end

/-- the test of a block line `if "c" equ "1" (` -/
def guardB (ρ : Store) (c : String) : Option Bool := (expandD ρ c).map (· == "1")

mutual
inductive ExecB : BCmd → Cfg → Out → Cfg → Prop
  | simple {l c o c'} : stepB l c = some (o, c') → ExecB (.simple l) c o c'
  | guardedRun {n body c o c'} : c.ρ (flagName n) ≠ "" → ExecBs body c o c' → ExecB (.guarded n body) c o c'
  | guardedSkip {n body c} : c.ρ (flagName n) = "" → ExecB (.guarded n body) c .normal c
  | chainTrue {lbl g thn elifs els c o c'} : guardB c.ρ g = some true → ExecBs thn c o c' → ExecB (.chain lbl g thn elifs els) c o c'
  | chainFalse {lbl g thn elifs els c o c'} : guardB c.ρ g = some false → ExecElifsB elifs els c o c' → ExecB (.chain lbl g thn elifs els) c o c'
  | loop {n pre g body c o c'} : ExecLoopB pre g body c o c' → ExecB (.loop n pre g body) c o c'
  | brk {c} : ExecB .brk c .brk c
  | cont {c} : ExecB .cont c .cont c
inductive ExecBs : List BCmd → Cfg → Out → Cfg → Prop
  | nil {c} : ExecBs [] c .normal c
  | cons {x xs c c1 o c'} : ExecB x c .normal c1 → ExecBs xs c1 o c' → ExecBs (x :: xs) c o c'
  | stop {x xs c o c'} : ExecB x c o c' → o ≠ .normal → ExecBs (x :: xs) c o c'
inductive ExecElifsB : List (String × List BCmd) → Option (List BCmd) → Cfg → Out → Cfg → Prop
  | none {c} : ExecElifsB [] none c .normal c
  | els {b c o c'} : ExecBs b c o c' → ExecElifsB [] (some b) c o c'
  | hit {g b rest els c o c'} : guardB c.ρ g = some true → ExecBs b c o c' → ExecElifsB ((g, b) :: rest) els c o c'
  | miss {g b rest els c o c'} : guardB c.ρ g = some false → ExecElifsB rest els c o c' → ExecElifsB ((g, b) :: rest) els c o c'
/-- one round: the lines in front of the test, the test, the body; `goto` head = next round, `goto` end = leave -/
inductive ExecLoopB : List BCmd → String → List BCmd → Cfg → Out → Cfg → Prop
  | done {pre g body c c1} : ExecBs pre c .normal c1 → guardB c1.ρ g = some false → ExecLoopB pre g body c .normal c1
  | next {pre g body c c1 c2 o c'} : ExecBs pre c .normal c1 → guardB c1.ρ g = some true → ExecBs body c1 .normal c2 →
      ExecLoopB pre g body c2 o c' → ExecLoopB pre g body c o c'
  | cont {pre g body c c1 c2 o c'} : ExecBs pre c .normal c1 → guardB c1.ρ g = some true → ExecBs body c1 .cont c2 →
      ExecLoopB pre g body c2 o c' → ExecLoopB pre g body c o c'
  | brk {pre g body c c1 c'} : ExecBs pre c .normal c1 → guardB c1.ρ g = some true → ExecBs body c1 .brk c' →
      ExecLoopB pre g body c .normal c'
  | exit {pre g body c c1 k c'} : ExecBs pre c .normal c1 → guardB c1.ρ g = some true → ExecBs body c1 (.exit k) c' →
      ExecLoopB pre g body c (.exit k) c'
end

/-! ### executable side (driver only): an interpreter for the tree, and the tree of a line list

  `execBs` computes what `ExecBs` relates; `treeOf` rebuilds the tree from the emitted lines (the inverse of `flats` on the
  shapes the converter emits).  The driver runs `execBs` on `treeOf` of every script of the scalar fragment next to the
  line-level machine `runPC` and lib/cmdsim.py: the tie of the structured reading to the line-level rules. -/

mutual
def execB : Nat → BCmd → Cfg → Option (Out × Cfg)
  | 0, _, _ => none
  | _ + 1, .simple l, c => stepB l c
  | f + 1, .guarded n body, c => if c.ρ (flagName n) != "" then execBs f body c else some (.normal, c)
  | f + 1, .chain _ g thn elifs els, c =>
      match guardB c.ρ g with
      | some true => execBs f thn c
      | some false => execElifsB f elifs els c
      | none => none
  | f + 1, .loop _ pre g body, c => execLoopB f pre g body c
  | _ + 1, .brk, c => some (.brk, c)
  | _ + 1, .cont, c => some (.cont, c)
def execBs : Nat → List BCmd → Cfg → Option (Out × Cfg)
  | 0, _, _ => none
  | _ + 1, [], c => some (.normal, c)
  | f + 1, x :: xs, c =>
      match execB f x c with
      | some (.normal, c') => execBs f xs c'
      | r => r
def execElifsB : Nat → List (String × List BCmd) → Option (List BCmd) → Cfg → Option (Out × Cfg)
  | 0, _, _, _ => none
  | _ + 1, [], none, c => some (.normal, c)
  | f + 1, [], some b, c => execBs f b c
  | f + 1, (g, b) :: rest, els, c =>
      match guardB c.ρ g with
      | some true => execBs f b c
      | some false => execElifsB f rest els c
      | none => none
def execLoopB : Nat → List BCmd → String → List BCmd → Cfg → Option (Out × Cfg)
  | 0, _, _, _, _ => none
  | f + 1, pre, g, body, c =>
      match execBs f pre c with
      | some (.normal, c1) =>
          match guardB c1.ρ g with
          | some false => some (.normal, c1)
          | some true =>
              match execBs f body c1 with
              | some (.normal, c2) => execLoopB f pre g body c2
              | some (.cont, c2) => execLoopB f pre g body c2
              | some (.brk, c') => some (.normal, c')
              | some (.exit k, c') => some (.exit k, c')
              | none => none
          | none => none
      | _ => none
end

def isCloser : BLine → Bool
  | .close | .elseOpen | .elseIfOpen _ => true
  | _ => false

/-- the operand `c` of `if "c" equ "1" (` -/
def condOf (t : String) : Option String :=
  match stripPrefix "if \"".toList t.toList with
  | some rest => (stripSuffix "\" equ \"1\" (".toList rest).map String.ofList
  | none => none

/-- the loop number of `if defined _fv<n> (` -/
def flagOf (t : String) : Option Nat :=
  match stripPrefix "if defined _fv".toList t.toList with
  | some rest => (stripSuffix " (".toList rest).bind (fun ds => (String.ofList ds).toNat?)
  | none => none

def labelNum (pre : String) (l : String) : Option Nat :=
  (stripPrefix pre.toList l.toList).bind (fun ds => (String.ofList ds).toNat?)

mutual
/-- commands up to a terminator (a closer, or a `goto` in front of a closer), which is not consumed -/
def parseSeq : Nat → List BLine → Option (List BCmd × List BLine)
  | 0, _ => none
  | _ + 1, [] => some ([], [])
  | f + 1, l :: rest =>
      if isCloser l then some ([], l :: rest) else
      match l, rest with
      | .cgoto lbl, nxt :: _ =>
          if isCloser nxt then some ([], l :: rest) else
          match parseSeq f rest with
          | some (more, rest') => some ((if lbl.startsWith "_e" then BCmd.brk else BCmd.cont) :: more, rest')
          | none => none
      | .opn t, _ =>
          match flagOf t with
          | some n =>
              match parseSeq f rest with
              | some (body, .close :: rest1) =>
                  match parseSeq f rest1 with
                  | some (more, rest2) => some (.guarded n body :: more, rest2)
                  | none => none
              | _ => none
          | none =>
              match condOf t with
              | some c =>
                  match parseSeq f rest with
                  | some (thn, .cgoto lbl :: rest1) =>
                      match parseTail f lbl rest1 with
                      | some (elifs, els, rest2) =>
                          match parseSeq f rest2 with
                          | some (more, rest3) => some (.chain lbl c thn elifs els :: more, rest3)
                          | none => none
                      | none => none
                  | _ => none
              | none => none
      | .clabel lbl, _ =>
          match labelNum "_f" lbl with
          | some n =>
              match parseLoop f n rest [] with
              | some (cmd, rest1) =>
                  match parseSeq f rest1 with
                  | some (more, rest2) => some (cmd :: more, rest2)
                  | none => none
              | none => none
          | none => none
      | _, _ =>
          match parseSeq f rest with
          | some (more, rest') => some (.simple l :: more, rest')
          | none => none
/-- `) else if … (` / `) else (` / `)` + label after the first branch of a chain (its `goto` already consumed) -/
def parseTail : Nat → String → List BLine → Option (List (String × List BCmd) × Option (List BCmd) × List BLine)
  | 0, _, _ => none
  | _ + 1, lbl, .close :: .clabel l2 :: rest => if l2 == lbl then some ([], none, rest) else none
  | f + 1, lbl, .elseOpen :: rest =>
      match parseSeq f rest with
      | some (b, .cgoto l1 :: .close :: .clabel l2 :: rest1) => if l1 == lbl && l2 == lbl then some ([], some b, rest1) else none
      | _ => none
  | f + 1, lbl, .elseIfOpen t :: rest =>
      match condOf t with
      | some c =>
          match parseSeq f rest with
          | some (b, .cgoto l1 :: rest1) =>
              if l1 == lbl then
                match parseTail f lbl rest1 with
                | some (elifs, els, rest2) => some ((c, b) :: elifs, els, rest2)
                | none => none
              else none
          | _ => none
      | none => none
  | _ + 1, _, _ => none
/-- a loop after its head label: the lines in front of the test (simple lines and the guarded increment), the test, the body,
    `goto` head, `)`, end label -/
def parseLoop : Nat → Nat → List BLine → List BCmd → Option (BCmd × List BLine)
  | 0, _, _, _ => none
  | f + 1, n, .opn t :: rest, pre =>
      match flagOf t with
      | some m =>
          match parseSeq f rest with
          | some (body, .close :: rest1) => parseLoop f n rest1 (pre ++ [.guarded m body])
          | _ => none
      | none =>
          match condOf t with
          | some c =>
              match parseSeq f rest with
              | some (body, .cgoto l1 :: .close :: .clabel l2 :: rest1) =>
                  if l1 == forLabel n && l2 == endLabel n then some (.loop n pre c body, rest1) else none
              | _ => none
          | none => none
  | f + 1, n, l :: rest, pre => parseLoop f n rest (pre ++ [.simple l])
  | _ + 1, _, [], _ => none
end

def treeOf (ls : List BLine) : Option (List BCmd) :=
  match parseSeq (2 * ls.length + 4) ls with
  | some (cs, []) => some cs
  | _ => none

def isHelperEnd : BLine → Bool
  | .raw t => hasInfix " helper end".toList t.toList
  | _ => false

def isStartLine : BLine → Bool
  | .raw t => t == "@echo off" || t == "setlocal EnableDelayedExpansion" || t == "setlocal" || t == "(set LF=^" || t == "" || t == ")"
  | .set n v => n == "_e" && v == "0"
  | _ => false

/-- the lines of the program: what stands between the start code / the last helper routine and `:end` -/
def programLines (ls : List BLine) : List BLine :=
  let body := (ls.takeWhile (fun l => l != .label "end")).dropWhile isStartLine
  if body.any isHelperEnd then (body.reverse.takeWhile (fun l => !isHelperEnd l)).reverse else body

/-- run the block tree of a whole script from the store the start code leaves -/
def runTree (fuel : Nat) (ls : List BLine) : Option (Out × List String) :=
  match treeOf (programLines ls) with
  | some cs =>
      match execBs fuel cs ⟨Store.set (fun _ => "") "_e" "0", []⟩ with
      | some (o, c) => some (o, c.out)
      | none => none
  | none => none

end Tsh.SemB
