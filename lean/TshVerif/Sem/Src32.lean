/-
  Meaning of the elaborated AST for the scalar fragment WITH 32-BIT INTEGERS AND A CMD-NEUTRAL STRING ALPHABET - the
  reference semantics property C05 names for the Batch target.  The same definitions as `Sem/Src` (every operand
  once, left to right, `&&` / `||` and all `else if` conditions evaluated eagerly), except:

  * `int` is 32-bit (`arith32`), a literal must be readable;
  * an arithmetic operation or an integer comparison on the value -2^31 is stuck: cmd.exe cannot read that
    value back from a variable (known finding minint32-not-rereadable) - the theorem says nothing there;
  * string literals are printable ASCII without `!`, `^`, `%` and `"` (`plainLitB`);
  * `print` / `panic` of a line that `echo` does not print as it stands (blank, `on`, `off`, `/?`) is stuck.

  Tied to the code by running it next to the 32-bit reference interpreter and the cmd model in every C05 run.
-/
import TshVerif.Sem.Src
import TshVerif.Sem.Cmd
namespace Tsh.SemB.Src32
open Tsh Tsh.Tr Tsh.Sem Tsh.Sem.Src Tsh.SemB

/-- string literals the Batch converter writes unchanged and cmd.exe reads unchanged inside `set "x=..."` -/
def plainLitB (s : String) : Bool :=
  s.toList.all (fun c => c != '!' && c != '^' && c != '%' && c != '"' && 32 ≤ c.toNat && c.toNat < 127)

def binVal (vt : ValueType) (op : String) (a b : Val) : Option Val :=
  if vt.isSlice then none else
  match vt.dt, a, b with
  | .int, .int x, .int y => if readable x && readable y then (arith32 op x y).map Val.int else none
  | .string, .str x, .str y => if op == "+" then some (.str (x ++ y)) else none
  | _, _, _ => none

def cmpVal (vt : ValueType) (op : String) (a b : Val) : Option Val :=
  if vt.isSlice then none else
  match vt.dt, a, b with
  | .bool, .bool x, .bool y =>
      if op == "==" then some (.bool (x == y)) else if op == "!=" then some (.bool (x != y)) else none
  | .int, .int x, .int y => if readable x && readable y then (Src.intCmp op x y).map Val.bool else none
  | .string, .str x, .str y =>
      if op == "==" then some (.bool (x == y)) else if op == "!=" then some (.bool (x != y)) else none
  | _, _, _ => none

def evalExpr (env : Env) : Expr → Option Val
  | .boolLit b => some (.bool b)
  | .intLit n => if readable n then some (.int n) else none
  | .strLit s => if plainLitB s then some (.str s) else none
  | .varEval v => env v.name
  | .unary op e _ =>
      if op == "!" then
        match evalExpr env e with
        | some (.bool b) => some (.bool (!b))
        | _ => none
      else none
  | .binary op l r =>
      match evalExpr env l, evalExpr env r with
      | some a, some b => binVal (Expr.valueType l) op a b
      | _, _ => none
  | .compare op l r =>
      match evalExpr env l, evalExpr env r with
      | some a, some b => cmpVal (Expr.valueType l) op a b
      | _, _ => none
  | .logical op l r =>
      match evalExpr env l, evalExpr env r with
      | some (.bool a), some (.bool b) =>
          if op == "&&" then some (.bool (a && b)) else if op == "||" then some (.bool (a || b)) else none
      | _, _ => none
  | .group e => evalExpr env e
  | .itoa e =>
      match evalExpr env e with
      | some (.int n) => some (.str (toString n))
      | _ => none
  | _ => none

def evalList (env : Env) : List Expr → Option (List Val)
  | [] => some []
  | e :: rest =>
      match evalExpr env e, evalList env rest with
      | some v, some vs => some (v :: vs)
      | _, _ => none

/-- the conditions of all `else if` branches, before any branch is taken -/
def evalConds (env : Env) : List (Expr × List Stmt) → Option (List Bool)
  | [] => some []
  | (c, _) :: rest =>
      match evalExpr env c, evalConds env rest with
      | some (.bool b), some bs => some (b :: bs)
      | _, _ => none

mutual
def execStmt : Nat → Stmt → SCfg → Option (Out × SCfg)
  | 0, _, _ => none
  | _ + 1, .varDef vars vals, c =>
      if vars.length == vals.length then
        match evalList c.env vals with
        | some vs => some (.normal, { c with env := storeAll c.env vars vs })
        | none => none
      else none
  | _ + 1, .assign vars vals, c =>
      if vars.length == vals.length then
        match evalList c.env vals with
        | some vs => some (.normal, { c with env := storeAll c.env vars vs })
        | none => none
      else none
  | f + 1, .ifS cond body elifs els, c =>
      match evalExpr c.env cond, evalConds c.env elifs with
      | some (.bool b), some bs =>
          if b then execStmts f body c else execElifs f elifs bs els c
      | _, _ => none
  | f + 1, .forS init cond incr body, c =>
      match init with
      | some i =>
          match execStmt f i c with
          | some (.normal, c1) => execLoop f cond incr body c1
          | _ => none
      | none => execLoop f cond incr body c
  | _ + 1, .brk, c => some (.brk, c)
  | _ + 1, .cont, c => some (.cont, c)
  | _ + 1, .print es, c =>
      match evalList c.env es with
      | some vs =>
          if echoSafe (" ".intercalate (vs.map Val.render)) then
            some (.normal, { c with out := c.out ++ [" ".intercalate (vs.map Val.render)] })
          else none
      | none => none
  | _ + 1, .panic e, c =>
      match evalExpr c.env e with
      | some v => if echoSafe ("panic: " ++ v.render) then some (.exit 1, { c with out := c.out ++ ["panic: " ++ v.render] }) else none
      | none => none
  | _ + 1, _, _ => none
def execStmts : Nat → List Stmt → SCfg → Option (Out × SCfg)
  | 0, _, _ => none
  | _ + 1, [], c => some (.normal, c)
  | f + 1, s :: rest, c =>
      match execStmt f s c with
      | some (.normal, c1) => execStmts f rest c1
      | r => r
def execElifs : Nat → List (Expr × List Stmt) → List Bool → List Stmt → SCfg → Option (Out × SCfg)
  | 0, _, _, _, _ => none
  | f + 1, (_, body) :: rest, b :: bs, els, c =>
      if b then execStmts f body c else execElifs f rest bs els c
  | f + 1, _, _, els, c => execStmts f els c
/-- one round of a loop: condition, body, increment; then the next round -/
def execLoop : Nat → Expr → Option Stmt → List Stmt → SCfg → Option (Out × SCfg)
  | 0, _, _, _, _ => none
  | f + 1, cond, incr, body, c =>
      match evalExpr c.env cond with
      | some (.bool true) =>
          match execStmts f body c with
          | some (.brk, c1) => some (.normal, c1)
          | some (.exit k, c1) => some (.exit k, c1)
          | some (_, c1) =>
              match incr with
              | some i =>
                  match execStmt f i c1 with
                  | some (.normal, c2) => execLoop f cond incr body c2
                  | _ => none
              | none => execLoop f cond incr body c1
          | none => none
      | some (.bool false) => some (.normal, c)
      | _ => none
end



def runProgram (fuel : Nat) (p : Program) : Option (Out × List String) :=
  match execStmts fuel p SCfg.init with
  | some (o, c) => some (o, c.out)
  | none => none

end Tsh.SemB.Src32
