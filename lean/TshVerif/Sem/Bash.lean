/-
  A semantics of the bash scripts the converter emits, for the scalar fragment
  (integer / boolean / string expressions, assignments, if-chains, loops with break and continue,
  print and panic).  Defined on the *structured* lines of `Model/ConvBash` (one constructor per line
  template), not on text: how bash reads the rendered text is outside this file and is checked in
  every run by executing the same scripts under /bin/bash and under `run` below (correspondence).

  * `scan` / `expand`   parameter expansion and backslash rules between double quotes
  * `stepSimple`        one simple command
  * `Cmd`, `flat`       block structure of a script and its lines
  * `exec…`             executable big-step interpreter with fuel
  * `parse`             lines -> block structure (used by the driver, not by the theorems)
-/
import TshVerif.Model.ConvBash
import Std.Data.String.ToInt
namespace Tsh.Sem
open Tsh Tsh.Bash

/-- shell variables; an unset variable reads as the empty string -/
abbrev Store := String → String

def Store.set (ρ : Store) (x v : String) : Store := fun y => if y = x then v else ρ y

def nameChar (c : Char) : Bool := c.isAlphanum || c == '_'

/-- what bash accepts between `${` and `}` as a plain variable name -/
def validName (cs : List Char) : Bool :=
  match cs with
  | [] => false
  | c :: _ => !c.isDigit && cs.all nameChar

/-- names a program may use for its variables (identifiers not starting with an underscore; those are the compiler's) -/
def goodName (x : String) : Bool := validName x.toList && !(x.toList.head? == some '_')

/-- the characters that are special between double quotes -/
def special (c : Char) : Bool := c == '\\' || c == '"' || c == '$' || c == '`'

/-- Scanner for the text between double quotes.  Mode `none`: ordinary text; mode `some acc`: inside
    `${…}` with the name read so far.  `none` as a result: a form this model does not cover
    (command substitution, `$?`, positional parameters, an unescaped quote …). -/
def scan (ρ : Store) : Option (List Char) → List Char → Option (List Char)
  | none, [] => some []
  | some _, [] => none
  | some acc, c :: rest =>
      if c == '}' then
        if validName acc then (scan ρ none rest).map (fun t => (ρ (String.ofList acc)).toList ++ t) else none
      else scan ρ (some (acc ++ [c])) rest
  | none, c :: rest =>
      if c == '\\' then
        match rest with
        | [] => some ['\\']
        | d :: rest' =>
            if special d then (scan ρ none rest').map (fun t => d :: t)
            else if d == '\n' then scan ρ none rest'
            else (scan ρ none rest').map (fun t => '\\' :: d :: t)
      else if c == '$' then
        match rest with
        | '{' :: rest' => scan ρ (some []) rest'
        | _ => none
      else if c == '`' || c == '"' then none
      else (scan ρ none rest).map (fun t => c :: t)

/-- the value of a double-quoted text -/
def expand (ρ : Store) (t : String) : Option String := (scan ρ none t.toList).map String.ofList

def asInt (s : String) : Option Int := s.toInt?

/-- 64-bit two's complement, the range of bash arithmetic (and of Go's `int` on the platforms in question) -/
def wrap64 (n : Int) : Int := (n + 9223372036854775808) % 18446744073709551616 - 9223372036854775808

/-- `+ - * / %` with truncated division; division by zero is an error in both worlds -/
def arith (op : String) (a b : Int) : Option Int :=
  if op == "+" then some (wrap64 (a + b))
  else if op == "-" then some (wrap64 (a - b))
  else if op == "*" then some (wrap64 (a * b))
  else if op == "/" then (if b == 0 then none else some (wrap64 (a.tdiv b)))
  else if op == "%" then (if b == 0 then none else some (wrap64 (a.tmod b)))
  else none

def numTest (os : String) (a b : Int) : Option Bool :=
  if os == "-eq" then some (a == b)
  else if os == "-ne" then some (a != b)
  else if os == "-gt" then some (decide (a > b))
  else if os == "-ge" then some (decide (a ≥ b))
  else if os == "-lt" then some (decide (a < b))
  else if os == "-le" then some (decide (a ≤ b))
  else none

def expandInt (ρ : Store) (t : String) : Option Int := (expand ρ t).bind asInt

def evalTest (ρ : Store) : Test → Option Bool
  | .cmp l os r =>
      if os == "==" then
        match expand ρ l, expand ρ r with
        | some a, some b => some (a == b)
        | _, _ => none
      else if os == "!=" then
        match expand ρ l, expand ρ r with
        | some a, some b => some (a != b)
        | _, _ => none
      else
        match expandInt ρ l, expandInt ρ r with
        | some a, some b => numTest os a b
        | _, _ => none
  | .log l op r =>
      match expandInt ρ l, expandInt ρ r with
      | some a, some b =>
          if op == "&&" then some (a == 1 && b == 1)
          else if op == "||" then some (a == 1 || b == 1)
          else none
      | _, _ => none
  | .exists_ _ => none

structure Cfg where
  ρ : Store
  out : List String       -- the lines printed so far (each followed by a line feed in the real output)

inductive Out
  | normal
  | brk
  | cont
  | exit (code : Nat)
deriving Repr, DecidableEq

def flagName (n : Nat) : String := s!"_fv{n}"

def bit (s : String) : Bool := s == "0" || s == "1"

/-- one simple command; `none`: not covered by this model -/
def stepSimple (l : Line) (c : Cfg) : Option (Out × Cfg) :=
  match l with
  | .shebang => some (.normal, c)
  | .comment _ => some (.normal, c)
  | .nop => some (.normal, c)
  | .assign n v =>
      match expand c.ρ v with
      | some t => some (.normal, { c with ρ := c.ρ.set n t })
      | none => none
  | .assignArith n l op r =>
      match expandInt c.ρ l, expandInt c.ρ r with
      | some a, some b =>
          match arith op a b with
          | some x => some (.normal, { c with ρ := c.ρ.set n (toString x) })
          | none => none
      | _, _ => none
  | .assignTest n t a b =>
      if bit a && bit b then
        match evalTest c.ρ t with
        | some v => some (.normal, { c with ρ := c.ρ.set n (if v then a else b) })
        | none => none
      else none
  | .forFlagInit n => some (.normal, { c with ρ := c.ρ.set (flagName n) "" })
  | .incrFlagSet n => some (.normal, { c with ρ := c.ρ.set (flagName n) "1" })
  | .forCond cnd =>
      match expandInt c.ρ cnd with
      | some a => some (if a != 1 then .brk else .normal, c)
      | none => none
  | .brk => some (.brk, c)
  | .cont => some (.cont, c)
  | .echo t =>
      match expand c.ρ t with
      | some s => some (.normal, { c with out := c.out ++ [s] })
      | none => none
  | .exit1 => some (.exit 1, c)
  | _ => none

/-- the guard of an `if` / `elif` line, or of the increment block of a loop -/
def guard (ρ : Store) : Line → Option Bool
  | .ifStart _ cnd =>
      match expandInt ρ cnd with
      | some a => some (a == 1)
      | none => none
  | .incrStart n => some (ρ (flagName n) != "")
  | _ => none

/-- block structure of a script -/
inductive Cmd
  | simple (l : Line)
  | ifc (g : Line) (thn : List Cmd) (elifs : List (Line × List Cmd)) (els : Option (List Cmd))
  | loop (body : List Cmd)

mutual
def flat : Cmd → List Line
  | .simple l => [l]
  | .ifc g thn elifs els => g :: (flats thn ++ (flatElifs elifs ++ (flatElse els ++ [.fi])))
  | .loop body => .whileStart :: (flats body ++ [.done])
def flats : List Cmd → List Line
  | [] => []
  | c :: cs => flat c ++ flats cs
def flatElifs : List (Line × List Cmd) → List Line
  | [] => []
  | (g, b) :: rest => g :: (flats b ++ flatElifs rest)
def flatElse : Option (List Cmd) → List Line
  | none => []
  | some b => .else_ :: flats b
end

/-! ### executable interpreter (fuel bounds depth and iterations) -/

mutual
def execCmd : Nat → Cmd → Cfg → Option (Out × Cfg)
  | 0, _, _ => none
  | _ + 1, .simple l, c => stepSimple l c
  | f + 1, .ifc g thn elifs els, c =>
      match guard c.ρ g with
      | some true => execCmds f thn c
      | some false => execElifs f elifs els c
      | none => none
  | f + 1, .loop body, c => execLoop f body c
def execCmds : Nat → List Cmd → Cfg → Option (Out × Cfg)
  | 0, _, _ => none
  | _ + 1, [], c => some (.normal, c)
  | f + 1, x :: xs, c =>
      match execCmd f x c with
      | some (.normal, c') => execCmds f xs c'
      | r => r
def execElifs : Nat → List (Line × List Cmd) → Option (List Cmd) → Cfg → Option (Out × Cfg)
  | 0, _, _, _ => none
  | _ + 1, [], none, c => some (.normal, c)
  | f + 1, [], some b, c => execCmds f b c
  | f + 1, (g, b) :: rest, els, c =>
      match guard c.ρ g with
      | some true => execCmds f b c
      | some false => execElifs f rest els c
      | none => none
def execLoop : Nat → List Cmd → Cfg → Option (Out × Cfg)
  | 0, _, _ => none
  | f + 1, body, c =>
      match execCmds f body c with
      | some (.normal, c') => execLoop f body c'
      | some (.cont, c') => execLoop f body c'
      | some (.brk, c') => some (.normal, c')
      | some (.exit k, c') => some (.exit k, c')
      | none => none
end

/-! ### big-step relation (what the theorems talk about) -/

mutual
inductive ExecCmd : Cmd → Cfg → Out → Cfg → Prop
  | simple {l c o c'} : stepSimple l c = some (o, c') → ExecCmd (.simple l) c o c'
  | ifTrue {g thn elifs els c o c'} : guard c.ρ g = some true → ExecCmds thn c o c' → ExecCmd (.ifc g thn elifs els) c o c'
  | ifFalse {g thn elifs els c o c'} : guard c.ρ g = some false → ExecElifs elifs els c o c' → ExecCmd (.ifc g thn elifs els) c o c'
  | loop {body c o c'} : ExecLoop body c o c' → ExecCmd (.loop body) c o c'
inductive ExecCmds : List Cmd → Cfg → Out → Cfg → Prop
  | nil {c} : ExecCmds [] c .normal c
  | cons {x xs c c1 o c'} : ExecCmd x c .normal c1 → ExecCmds xs c1 o c' → ExecCmds (x :: xs) c o c'
  | stop {x xs c o c'} : ExecCmd x c o c' → o ≠ .normal → ExecCmds (x :: xs) c o c'
inductive ExecElifs : List (Line × List Cmd) → Option (List Cmd) → Cfg → Out → Cfg → Prop
  | none {c} : ExecElifs [] none c .normal c
  | els {b c o c'} : ExecCmds b c o c' → ExecElifs [] (some b) c o c'
  | hit {g b rest els c o c'} : guard c.ρ g = some true → ExecCmds b c o c' → ExecElifs ((g, b) :: rest) els c o c'
  | miss {g b rest els c o c'} : guard c.ρ g = some false → ExecElifs rest els c o c' → ExecElifs ((g, b) :: rest) els c o c'
inductive ExecLoop : List Cmd → Cfg → Out → Cfg → Prop
  | next {body c c1 o c'} : ExecCmds body c .normal c1 → ExecLoop body c1 o c' → ExecLoop body c o c'
  | cont {body c c1 o c'} : ExecCmds body c .cont c1 → ExecLoop body c1 o c' → ExecLoop body c o c'
  | brk {body c c'} : ExecCmds body c .brk c' → ExecLoop body c .normal c'
  | exit {body c k c'} : ExecCmds body c (.exit k) c' → ExecLoop body c (.exit k) c'
end

/-! ### lines -> block structure (driver only) -/

def isCloser : Line → Bool
  | .fi | .else_ | .done | .funcEnd => true
  | .ifStart w _ => w == "elif"
  | _ => false

mutual
/-- commands up to the next closer (not consumed) or the end of the input -/
def parseCmds : Nat → List Line → Option (List Cmd × List Line)
  | 0, _ => none
  | _ + 1, [] => some ([], [])
  | f + 1, l :: rest =>
      if isCloser l then some ([], l :: rest) else
      match l with
      | .ifStart _ _ | .incrStart _ =>
          match parseCmds f rest with
          | some (thn, rest1) =>
              match parseTail f rest1 with
              | some (elifs, els, rest2) =>
                  match parseCmds f rest2 with
                  | some (more, rest3) => some (.ifc l thn elifs els :: more, rest3)
                  | none => none
              | none => none
          | none => none
      | .whileStart =>
          match parseCmds f rest with
          | some (body, .done :: rest1) =>
              match parseCmds f rest1 with
              | some (more, rest2) => some (.loop body :: more, rest2)
              | none => none
          | _ => none
      | _ =>
          match parseCmds f rest with
          | some (more, rest1) => some (.simple l :: more, rest1)
          | none => none
/-- `elif … else … fi` after the first branch of an if-chain -/
def parseTail : Nat → List Line → Option (List (Line × List Cmd) × Option (List Cmd) × List Line)
  | 0, _ => none
  | _ + 1, .fi :: rest => some ([], none, rest)
  | f + 1, .else_ :: rest =>
      match parseCmds f rest with
      | some (b, .fi :: rest1) => some ([], some b, rest1)
      | _ => none
  | f + 1, .ifStart w c :: rest =>
      if w == "elif" then
        match parseCmds f rest with
        | some (b, rest1) =>
            match parseTail f rest1 with
            | some (elifs, els, rest2) => some ((.ifStart w c, b) :: elifs, els, rest2)
            | none => none
        | none => none
      else none
  | _ + 1, _ => none
end

def parse (ls : List Line) : Option (List Cmd) :=
  match parseCmds (2 * ls.length + 2) ls with
  | some (cs, []) => some cs
  | _ => none

def Cfg.init : Cfg := { ρ := fun _ => "", out := [] }

/-- run a whole script (as lines) -/
def run (fuel : Nat) (ls : List Line) : Option (Out × List String) :=
  match parse ls with
  | some cs =>
      match execCmds fuel cs Cfg.init with
      | some (o, c) => some (o, c.out)
      | none => none
  | none => none

end Tsh.Sem
