/-
  A line-level semantics of the Batch scripts, defined on the LIST of lines (no tree): what cmd.exe does when it knows only
  lines, labels and parenthesised blocks.

    * a simple line runs (`stepB`), then the next line;
    * `goto :L` continues with the lines after the label `L` of the script (the script's labels are pairwise different -
      `C16.batch_construct_labels_unique` - so "the first `:L` from the top" and cmd.exe's "forward, then from the top" are the
      same line);
    * `if <cond> (` with a true condition continues with the next line; with a false one the lines up to the matching `)`,
      `) else (` or `) else if … (` are skipped (`skipBlock` counts nested blocks); `) else if` then tests its own condition;
    * a `)` that is reached by running into it ends its block: next line; a `) else …` that is reached by running into it
      means that the branch in front of it ran to its end: the rest of the chain is skipped up to its final `)`;
    * labels are no-ops; the end of the list is the end of the program; the last line `endlocal & exit /B %_e%` ends the
      script with the exit code that `_e` holds.

  `LRun whole` is the big-step relation "from these remaining lines and this configuration the script ends like this";
  `Lemmas/SemBLines` proves that the block tree of `Sem/CmdTree` is a sound reading of it.
-/
import TshVerif.Sem.CmdTree
namespace Tsh.SemB
open Tsh Tsh.Batch Tsh.Sem

/-- the lines after the first definition of label `l` -/
def afterLabel (l : String) : List BLine → Option (List BLine)
  | [] => none
  | .clabel n :: rest => if n == l then some rest else afterLabel l rest
  | .label n :: rest => if n == l then some rest else afterLabel l rest
  | _ :: rest => afterLabel l rest

/-- skip the rest of a block: the lines from the closer (included) that matches depth 0 -/
def skipBlock : Nat → List BLine → Option (List BLine)
  | _, [] => none
  | d, .opn t :: rest => skipBlock (d + 1) rest
  | 0, .close :: rest => some (.close :: rest)
  | 0, .elseOpen :: rest => some (.elseOpen :: rest)
  | 0, .elseIfOpen t :: rest => some (.elseIfOpen t :: rest)
  | d + 1, .close :: rest => skipBlock d rest
  | d + 1, .elseOpen :: rest => skipBlock (d + 1) rest
  | d + 1, .elseIfOpen _ :: rest => skipBlock (d + 1) rest
  | d, _ :: rest => skipBlock d rest

/-- the test of a block line: `if "c" equ "1" (` or `if defined _fv<n> (` -/
def blockTest (ρ : Store) (t : String) : Option Bool :=
  match flagOf t with
  | some n => some (ρ (flagName n) != "")
  | none =>
      match condOf t with
      | some c => guardB ρ c
      | none => none

/-- the script `whole`, from the remaining lines `rest` and configuration `c`, ends with outcome `o` in `c'` -/
inductive LRun (whole : List BLine) : List BLine → Cfg → Out → Cfg → Prop
  | done {c} : LRun whole [] c .normal c
  | simple {l rest c c1 o c'} : stepB l c = some (.normal, c1) → LRun whole rest c1 o c' → LRun whole (l :: rest) c o c'
  | exit {l rest c k c'} : stepB l c = some (.exit k, c') → LRun whole (l :: rest) c (.exit k) c'
  | label {n rest c o c'} : LRun whole rest c o c' → LRun whole (.clabel n :: rest) c o c'
  | jump {n rest tgt c o c'} : afterLabel n whole = some tgt → LRun whole tgt c o c' → LRun whole (.cgoto n :: rest) c o c'
  | enter {t rest c o c'} : blockTest c.ρ t = some true → LRun whole rest c o c' → LRun whole (.opn t :: rest) c o c'
  | skipToClose {t rest rest' c o c'} : blockTest c.ρ t = some false → skipBlock 0 rest = some (.close :: rest') →
      LRun whole rest' c o c' → LRun whole (.opn t :: rest) c o c'
  | skipToElse {t rest rest' c o c'} : blockTest c.ρ t = some false → skipBlock 0 rest = some (.elseOpen :: rest') →
      LRun whole rest' c o c' → LRun whole (.opn t :: rest) c o c'
  | skipToElseIf {t t' rest rest' c o c'} : blockTest c.ρ t = some false → skipBlock 0 rest = some (.elseIfOpen t' :: rest') →
      LRun whole (.opn t' :: rest') c o c' → LRun whole (.opn t :: rest) c o c'
  | close {rest c o c'} : LRun whole rest c o c' → LRun whole (.close :: rest) c o c'
  /-- any other label line (a routine, `:end`) is a no-op as well -/
  | plabel {n rest c o c'} : LRun whole rest c o c' → LRun whole (.label n :: rest) c o c'
  /-- the last line of every script: the exit code is the value of `_e` (`%_e%` is expanded when the line is read, which is
      when it is reached: the line stands in no block) -/
  | finish {rest c k} : asCode (c.ρ "_e") = some k → LRun whole (.raw "endlocal & exit /B %_e%" :: rest) c (.exit k) c

end Tsh.SemB
