/-
  A line-level semantics of the Batch scripts, defined on the LIST of lines (no tree): what cmd.exe does when it knows only
  lines, labels and parenthesised blocks.

    * a simple line runs (`stepB`), then the next line;
    * `goto :L` continues with the lines after the label `L` of the script (the script's labels are pairwise different -
      `C16.batch_construct_labels_unique` - so "the first `:L` from the top" and cmd.exe's "forward, then from the top" are the
      same line);
    * `if <cond> (` with a true condition continues with the next line; with a false one the lines up to the matching `)`,
      `) else (` or `) else if … (` are skipped (`skipBlock` counts nested blocks); `) else if` then tests its own condition;
    * a `)` that is reached by running into it ends its block: next line; a `) else …` that is reached by running into it
      means that the branch in front of it ran to its end: the rest of the chain is skipped up to its final `)`;
    * labels are no-ops; the raw lines of the start code and the remarks are no-ops; `goto :L` for another label (the jump
      over a helper routine) is a jump like the construct jumps; the end of the list is the end of the program; the last line `endlocal & exit /B %_e%` ends the
      script with the exit code that `_e` holds.

  `LRun whole` is the big-step relation "from these remaining lines and this configuration the script ends like this";
  `Lemmas/SemBLines` proves that the block tree of `Sem/CmdTree` is a sound reading of it.
-/
import TshVerif.Sem.CmdTree
namespace Tsh.SemB
open Tsh Tsh.Batch Tsh.Sem

/-- the lines after the first definition of label `l` -/
def afterLabel (l : String) : List BLine → Option (List BLine)
  | [] => none
  | .clabel n :: rest => if n == l then some rest else afterLabel l rest
  | .label n :: rest => if n == l then some rest else afterLabel l rest
  | _ :: rest => afterLabel l rest

/-- skip the rest of a block: the lines from the closer (included) that matches depth 0 -/
def skipBlock : Nat → List BLine → Option (List BLine)
  | _, [] => none
  | d, .opn t :: rest => skipBlock (d + 1) rest
  | 0, .close :: rest => some (.close :: rest)
  | 0, .elseOpen :: rest => some (.elseOpen :: rest)
  | 0, .elseIfOpen t :: rest => some (.elseIfOpen t :: rest)
  | d + 1, .close :: rest => skipBlock d rest
  | d + 1, .elseOpen :: rest => skipBlock (d + 1) rest
  | d + 1, .elseIfOpen _ :: rest => skipBlock (d + 1) rest
  | d, _ :: rest => skipBlock d rest

/-- the test of a block line: `if "c" equ "1" (` or `if defined _fv<n> (` -/
def blockTest (ρ : Store) (t : String) : Option Bool :=
  match flagOf t with
  | some n => some (ρ (flagName n) != "")
  | none =>
      match condOf t with
      | some c => guardB ρ c
      | none => none

/-- raw lines that do nothing the model looks at: the first lines of every script (`@echo off`, the two `setlocal`), the three
    lines that define `LF` (the value of `LF` is not modelled: the strings of the fragment contain no line break) and the
    `:: ...` remarks around the helper routines -/
def nopRaw (t : String) : Bool :=
  t == "@echo off" || t == "setlocal EnableDelayedExpansion" || t == "setlocal" || t == "(set LF=^" || t == "" || t == ")" ||
    [':', ':', ' '].isPrefixOf t.toList

/-- the script `whole`, from the remaining lines `rest` and configuration `c`, ends with outcome `o` in `c'` -/
inductive LRun (whole : List BLine) : List BLine → Cfg → Out → Cfg → Prop
  | done {c} : LRun whole [] c .normal c
  | simple {l rest c c1 o c'} : stepB l c = some (.normal, c1) → LRun whole rest c1 o c' → LRun whole (l :: rest) c o c'
  | exit {l rest c k c'} : stepB l c = some (.exit k, c') → LRun whole (l :: rest) c (.exit k) c'
  | label {n rest c o c'} : LRun whole rest c o c' → LRun whole (.clabel n :: rest) c o c'
  | jump {n rest tgt c o c'} : afterLabel n whole = some tgt → LRun whole tgt c o c' → LRun whole (.cgoto n :: rest) c o c'
  | enter {t rest c o c'} : blockTest c.ρ t = some true → LRun whole rest c o c' → LRun whole (.opn t :: rest) c o c'
  | skipToClose {t rest rest' c o c'} : blockTest c.ρ t = some false → skipBlock 0 rest = some (.close :: rest') →
      LRun whole rest' c o c' → LRun whole (.opn t :: rest) c o c'
  | skipToElse {t rest rest' c o c'} : blockTest c.ρ t = some false → skipBlock 0 rest = some (.elseOpen :: rest') →
      LRun whole rest' c o c' → LRun whole (.opn t :: rest) c o c'
  | skipToElseIf {t t' rest rest' c o c'} : blockTest c.ρ t = some false → skipBlock 0 rest = some (.elseIfOpen t' :: rest') →
      LRun whole (.opn t' :: rest') c o c' → LRun whole (.opn t :: rest) c o c'
  | close {rest c o c'} : LRun whole rest c o c' → LRun whole (.close :: rest) c o c'
  /-- any other label line (a routine, `:end`) is a no-op as well -/
  | plabel {n rest c o c'} : LRun whole rest c o c' → LRun whole (.label n :: rest) c o c'
  /-- the last line of every script: the exit code is the value of `_e` (`%_e%` is expanded when the line is read, which is
      when it is reached: the line stands in no block) -/
  | finish {rest c k} : asCode (c.ρ "_e") = some k → LRun whole (.raw "endlocal & exit /B %_e%" :: rest) c (.exit k) c
  /-- a raw line of the start code or a remark: next line -/
  | nop {t rest c o c'} : nopRaw t = true → LRun whole rest c o c' → LRun whole (.raw t :: rest) c o c'
  /-- `goto :L` for a label that is not a construct label (the jump over a helper routine): as `jump`; `goto :end` is a
      line of `stepB` (it ends the script with the code in `_e`) -/
  | gotoL {n rest tgt c o c'} : n ≠ "end" → afterLabel n whole = some tgt → LRun whole tgt c o c' → LRun whole (.goto n :: rest) c o c'

/-! ### executable side: an interpreter for the line-level semantics

  `lrun` computes what `LRun` relates (`Lemmas/SemBLines.lrun_sound`); the driver runs it on every script of the scalar
  fragment next to the program-counter machine `runPC`, the tree interpreter and lib/cmdsim.py. -/

def lrun (whole : List BLine) : Nat → List BLine → Cfg → Option (Out × Cfg)
  | 0, _, _ => none
  | _ + 1, [], c => some (.normal, c)
  | f + 1, .clabel _ :: rest, c => lrun whole f rest c
  | f + 1, .label _ :: rest, c => lrun whole f rest c
  | f + 1, .close :: rest, c => lrun whole f rest c
  | f + 1, .cgoto n :: _, c =>
      match afterLabel n whole with
      | some tgt => lrun whole f tgt c
      | none => none
  | f + 1, .opn t :: rest, c =>
      match blockTest c.ρ t with
      | some true => lrun whole f rest c
      | some false =>
          match skipBlock 0 rest with
          | some (.close :: r') => lrun whole f r' c
          | some (.elseOpen :: r') => lrun whole f r' c
          | some (.elseIfOpen t' :: r') => lrun whole f (.opn t' :: r') c
          | _ => none
      | none => none
  | f + 1, .raw t :: rest, c =>
      if nopRaw t then lrun whole f rest c else
      if t == "endlocal & exit /B %_e%" then (asCode (c.ρ "_e")).map (fun k => (.exit k, c)) else
      match stepB (.raw t) c with
      | some (.normal, c1) => lrun whole f rest c1
      | some (.exit k, c') => some (.exit k, c')
      | _ => none
  | f + 1, .goto n :: rest, c =>
      if n == "end" then
        match stepB (.goto n) c with
        | some (.exit k, c') => some (.exit k, c')
        | _ => none
      else
        match afterLabel n whole with
        | some tgt => lrun whole f tgt c
        | none => none
  | f + 1, l :: rest, c =>
      match stepB l c with
      | some (.normal, c1) => lrun whole f rest c1
      | some (.exit k, c') => some (.exit k, c')
      | _ => none

/-- the whole script from its first line, from the empty store: start code, the jumps over the helper routines, the program, the end lines -/
def runLines (fuel : Nat) (ls : List BLine) : Option (Out × List String) :=
  match lrun ls fuel ls ⟨fun _ => "", []⟩ with
  | some (o, c) => some (o, c.out)
  | none => none

end Tsh.SemB
