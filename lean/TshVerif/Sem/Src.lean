/-
  Meaning of the elaborated AST for the scalar fragment, as TypeShell defines it (Go's meaning with the
  evaluation rules the project states: every operand once, left to right, `&&`/`||` and all `else if`
  conditions evaluated eagerly; `int` is 64-bit).

  One flat environment: the parser rejects shadowing and out-of-scope uses (C07), so for the programs it
  returns a flat environment and lexical scoping agree.  `none` = stuck: a construct outside the fragment,
  a value that does not have the type the node is annotated with, a division by zero, a string literal
  with `$` or a backquote (the known finding of C08), fuel exhausted.

  Tied to the code by running it next to the reference interpreter and the real scripts in every C01 run.
-/
import TshVerif.Sem.Bash
namespace Tsh.Sem.Src
open Tsh Tsh.Tr Tsh.Sem

inductive Val
  | int (n : Int)
  | bool (b : Bool)
  | str (s : String)
  | slice (id : Nat)        -- a reference to slice storage number `id` (used by `Sem2`, never by the scalar fragment)
deriving Repr, DecidableEq

/-- the name of the array that holds slice number `id` -/
def sliceName (id : Nat) : String := "_dv" ++ Nat.repr id

/-- how a value is spelled in the target (`Itoa` is the identity on spellings) -/
def Val.render : Val → String
  | .int n => toString n
  | .bool b => boolStr b
  | .str s => s
  | .slice id => sliceName id

abbrev Env := String → Option Val

def Env.set (env : Env) (x : String) (v : Val) : Env := fun y => if y = x then some v else env y

def inRange (n : Int) : Bool := decide (-9223372036854775808 ≤ n) && decide (n < 9223372036854775808)

/-- string literals whose characters bash leaves alone between double quotes once `\` and `"` are escaped; ASCII
    only, so that a character is a byte and lengths and indices mean the same in Go, in bash and here -/
def plainLit (s : String) : Bool := s.toList.all (fun c => c != '$' && c != '`' && c.toNat < 128)

def binVal (vt : ValueType) (op : String) (a b : Val) : Option Val :=
  if vt.isSlice then none else
  match vt.dt, a, b with
  | .int, .int x, .int y => (arith op x y).map Val.int
  | .string, .str x, .str y => if op == "+" then some (.str (x ++ y)) else none
  | _, _, _ => none

def intCmp (op : String) (x y : Int) : Option Bool :=
  if op == "==" then some (x == y)
  else if op == "!=" then some (x != y)
  else if op == ">" then some (decide (x > y))
  else if op == ">=" then some (decide (x ≥ y))
  else if op == "<" then some (decide (x < y))
  else if op == "<=" then some (decide (x ≤ y))
  else none

def cmpVal (vt : ValueType) (op : String) (a b : Val) : Option Val :=
  if vt.isSlice then none else
  match vt.dt, a, b with
  | .bool, .bool x, .bool y =>
      if op == "==" then some (.bool (x == y)) else if op == "!=" then some (.bool (x != y)) else none
  | .int, .int x, .int y => (intCmp op x y).map Val.bool
  | .string, .str x, .str y =>
      if op == "==" then some (.bool (x == y)) else if op == "!=" then some (.bool (x != y)) else none
  | _, _, _ => none

def evalExpr (env : Env) : Expr → Option Val
  | .boolLit b => some (.bool b)
  | .intLit n => if inRange n then some (.int n) else none
  | .strLit s => if plainLit s then some (.str s) else none
  | .varEval v => env v.name
  | .unary op e _ =>
      if op == "!" then
        match evalExpr env e with
        | some (.bool b) => some (.bool (!b))
        | _ => none
      else none
  | .binary op l r =>
      match evalExpr env l, evalExpr env r with
      | some a, some b => binVal (Expr.valueType l) op a b
      | _, _ => none
  | .compare op l r =>
      match evalExpr env l, evalExpr env r with
      | some a, some b => cmpVal (Expr.valueType l) op a b
      | _, _ => none
  | .logical op l r =>
      match evalExpr env l, evalExpr env r with
      | some (.bool a), some (.bool b) =>
          if op == "&&" then some (.bool (a && b)) else if op == "||" then some (.bool (a || b)) else none
      | _, _ => none
  | .group e => evalExpr env e
  | .itoa e =>
      match evalExpr env e with
      | some (.int n) => some (.str (toString n))
      | _ => none
  | _ => none

/-- expressions of the scalar fragment (a static check; the evaluator is stuck on everything else) -/
def fragExpr : Expr → Bool
  | .boolLit _ | .intLit _ | .strLit _ | .varEval _ => true
  | .unary _ e _ => fragExpr e
  | .binary _ l r => fragExpr l && fragExpr r
  | .compare _ l r => fragExpr l && fragExpr r
  | .logical _ l r => fragExpr l && fragExpr r
  | .group e => fragExpr e
  | .itoa e => fragExpr e
  | _ => false

def evalList (env : Env) : List Expr → Option (List Val)
  | [] => some []
  | e :: rest =>
      match evalExpr env e, evalList env rest with
      | some v, some vs => some (v :: vs)
      | _, _ => none

mutual
/-- statements of the scalar fragment -/
def fragStmt : Stmt → Bool
  | .varDef vars vals =>
      vars.length == vals.length && !vars.isEmpty && vars.all (fun x => goodName x.name) && vals.all fragExpr
  | .assign vars vals =>
      vars.length == vals.length && !vars.isEmpty && vars.all (fun x => goodName x.name) && vals.all fragExpr
  | .ifS cond body elifs els => fragExpr cond && fragStmts body && fragElifs elifs && fragStmts els
  | .forS init cond incr body => fragOpt init && fragExpr cond && fragOpt incr && fragStmts body
  | .brk => true
  | .cont => true
  | .print es => es.all fragExpr
  | .panic e => fragExpr e
  | _ => false
def fragStmts : List Stmt → Bool
  | [] => true
  | s :: rest => fragStmt s && fragStmts rest
def fragElifs : List (Expr × List Stmt) → Bool
  | [] => true
  | (c, b) :: rest => fragExpr c && fragStmts b && fragElifs rest
def fragOpt : Option Stmt → Bool
  | none => true
  | some s => fragStmt s
end

structure SCfg where
  env : Env
  out : List String

def storeAll (env : Env) : List Var → List Val → Env
  | x :: xs, v :: vs => storeAll (env.set x.name v) xs vs
  | _, _ => env

/-- the conditions of all `else if` branches, before any branch is taken -/
def evalConds (env : Env) : List (Expr × List Stmt) → Option (List Bool)
  | [] => some []
  | (c, _) :: rest =>
      match evalExpr env c, evalConds env rest with
      | some (.bool b), some bs => some (b :: bs)
      | _, _ => none

mutual
def execStmt : Nat → Stmt → SCfg → Option (Out × SCfg)
  | 0, _, _ => none
  | _ + 1, .varDef vars vals, c =>
      if vars.length == vals.length then
        match evalList c.env vals with
        | some vs => some (.normal, { c with env := storeAll c.env vars vs })
        | none => none
      else none
  | _ + 1, .assign vars vals, c =>
      if vars.length == vals.length then
        match evalList c.env vals with
        | some vs => some (.normal, { c with env := storeAll c.env vars vs })
        | none => none
      else none
  | f + 1, .ifS cond body elifs els, c =>
      match evalExpr c.env cond, evalConds c.env elifs with
      | some (.bool b), some bs =>
          if b then execStmts f body c else execElifs f elifs bs els c
      | _, _ => none
  | f + 1, .forS init cond incr body, c =>
      match init with
      | some i =>
          match execStmt f i c with
          | some (.normal, c1) => execLoop f cond incr body c1
          | _ => none
      | none => execLoop f cond incr body c
  | _ + 1, .brk, c => some (.brk, c)
  | _ + 1, .cont, c => some (.cont, c)
  | _ + 1, .print es, c =>
      match evalList c.env es with
      | some vs => some (.normal, { c with out := c.out ++ [" ".intercalate (vs.map Val.render)] })
      | none => none
  | _ + 1, .panic e, c =>
      match evalExpr c.env e with
      | some v => some (.exit 1, { c with out := c.out ++ ["panic: " ++ v.render] })
      | none => none
  | _ + 1, _, _ => none
def execStmts : Nat → List Stmt → SCfg → Option (Out × SCfg)
  | 0, _, _ => none
  | _ + 1, [], c => some (.normal, c)
  | f + 1, s :: rest, c =>
      match execStmt f s c with
      | some (.normal, c1) => execStmts f rest c1
      | r => r
def execElifs : Nat → List (Expr × List Stmt) → List Bool → List Stmt → SCfg → Option (Out × SCfg)
  | 0, _, _, _, _ => none
  | f + 1, (_, body) :: rest, b :: bs, els, c =>
      if b then execStmts f body c else execElifs f rest bs els c
  | f + 1, _, _, els, c => execStmts f els c
/-- one round of a loop: condition, body, increment; then the next round -/
def execLoop : Nat → Expr → Option Stmt → List Stmt → SCfg → Option (Out × SCfg)
  | 0, _, _, _, _ => none
  | f + 1, cond, incr, body, c =>
      match evalExpr c.env cond with
      | some (.bool true) =>
          match execStmts f body c with
          | some (.brk, c1) => some (.normal, c1)
          | some (.exit k, c1) => some (.exit k, c1)
          | some (_, c1) =>
              match incr with
              | some i =>
                  match execStmt f i c1 with
                  | some (.normal, c2) => execLoop f cond incr body c2
                  | _ => none
              | none => execLoop f cond incr body c1
          | none => none
      | some (.bool false) => some (.normal, c)
      | _ => none
end

def SCfg.init : SCfg := { env := fun _ => none, out := [] }

def runProgram (fuel : Nat) (p : Program) : Option (Out × List String) :=
  match execStmts fuel p SCfg.init with
  | some (o, c) => some (o, c.out)
  | none => none

end Tsh.Sem.Src
