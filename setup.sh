#!/bin/bash
# Build the framework from files on disk only (offline): translator, Lean library + driver, harness.
set -e
cd "$(dirname "$0")"
export GOFLAGS=-mod=mod GOPROXY=off GOSUMDB=off GOTOOLCHAIN=local
python3 - <<'PY'
import sys
sys.path.insert(0, "lib")
import common
b = common.ensure_build()
for k in ("extract_error", "model_error", "harness_error"):
    if getattr(b, k):
        print(k, getattr(b, k))
        sys.exit(1)
print("harness:", b.tshdump)
PY
(cd lean && lake build)
