package main

import (
	"encoding/hex"
	"fmt"
	"reflect"
	"strconv"
	"strings"

	"github.com/monstermichl/typeshell/lexer"
	"github.com/monstermichl/typeshell/parser"
)

func hx(s string) string { return "x" + hex.EncodeToString([]byte(s)) }

func b01(b bool) string {
	if b {
		return "1"
	}
	return "0"
}

func dumpTokens(ts []lexer.Token) string {
	parts := make([]string, len(ts))
	for i, t := range ts {
		parts[i] = fmt.Sprintf("%d:%s:%d:%d", int(t.Type()), hex.EncodeToString([]byte(t.Value())), t.Row(), t.Column())
	}
	return strings.Join(parts, " ")
}

func dumpVT(vt parser.ValueType) string {
	s := string(vt.DataType())
	if s == "" {
		s = "none"
	}
	if vt.IsSlice() {
		s = "[]" + s
	}
	return s
}

func dumpVar(v parser.Variable) string {
	return fmt.Sprintf("(var %s %s %s %s)", hx(v.Name()), dumpVT(v.ValueType()), b01(v.Global()), b01(v.Public()))
}

func dumpVars(vs []parser.Variable) string {
	parts := make([]string, len(vs))
	for i, v := range vs {
		parts[i] = dumpVar(v)
	}
	return "(" + strings.Join(parts, " ") + ")"
}

func dumpVTs(vs []parser.ValueType) string {
	parts := make([]string, len(vs))
	for i, v := range vs {
		parts[i] = dumpVT(v)
	}
	return "(" + strings.Join(parts, " ") + ")"
}

func dumpExprs(es []parser.Expression) string {
	parts := make([]string, len(es))
	for i, e := range es {
		parts[i] = dumpExpr(e)
	}
	return "(" + strings.Join(parts, " ") + ")"
}

func dumpStmts(ss []parser.Statement) string {
	parts := make([]string, len(ss))
	for i, s := range ss {
		parts[i] = dumpStmt(s)
	}
	return "(" + strings.Join(parts, " ") + ")"
}

func dumpApp(a parser.AppCall) string {
	next := "nil"
	if a.Next() != nil {
		next = dumpApp(*a.Next())
	}
	return fmt.Sprintf("(app %s %s %s)", hx(a.Name()), dumpExprs(a.Args()), next)
}

func dumpExpr(e parser.Expression) string {
	if e == nil {
		return "nil"
	}
	switch v := e.(type) {
	case parser.BooleanLiteral:
		return "(bool " + b01(v.Value()) + ")"
	case parser.IntegerLiteral:
		return "(int " + strconv.Itoa(v.Value()) + ")"
	case parser.StringLiteral:
		return "(str " + hx(v.Value()) + ")"
	case parser.VariableEvaluation:
		return dumpVar(v.Variable)
	case parser.UnaryOperation:
		return fmt.Sprintf("(un %s %s %s)", hx(v.Operator()), dumpExpr(v.Expression()), dumpVT(v.ValueType()))
	case parser.BinaryOperation:
		return fmt.Sprintf("(bin %s %s %s)", hx(v.Operator()), dumpExpr(v.Left()), dumpExpr(v.Right()))
	case parser.Comparison:
		return fmt.Sprintf("(cmp %s %s %s)", hx(v.Operator()), dumpExpr(v.Left()), dumpExpr(v.Right()))
	case parser.LogicalOperation:
		return fmt.Sprintf("(log %s %s %s)", hx(v.Operator()), dumpExpr(v.Left()), dumpExpr(v.Right()))
	case parser.Group:
		return "(group " + dumpExpr(v.Child()) + ")"
	case parser.FunctionCall:
		return fmt.Sprintf("(call %s %s %s)", hx(v.Name()), dumpVTs(v.ReturnTypes()), dumpExprs(v.Args()))
	case parser.AppCall:
		return dumpApp(v)
	case parser.SliceInstantiation:
		return fmt.Sprintf("(slicenew %s %s)", dumpVT(parser.NewValueType(v.ValueType().DataType(), false)), dumpExprs(v.Values()))
	case parser.SliceEvaluation:
		return fmt.Sprintf("(sliceeval %s %s %s)", dumpExpr(v.Value()), dumpExpr(v.Index()), dumpVT(v.ValueType()))
	case parser.StringSubscript:
		end := "nil" // a single index s[i] has no end-index of its own
		if f := reflect.ValueOf(v).FieldByName("endIndex"); !f.IsValid() || !f.IsNil() {
			end = dumpExpr(v.EndIndex())
		}
		return fmt.Sprintf("(substr %s %s %s)", dumpExpr(v.Value()), dumpExpr(v.StartIndex()), end)
	case parser.Len:
		return "(len " + dumpExpr(v.Expression()) + ")"
	case parser.Itoa:
		return "(itoa " + dumpExpr(v.Value()) + ")"
	case parser.Exists:
		return "(exists " + dumpExpr(v.Path()) + ")"
	case parser.Read:
		return "(read " + dumpExpr(v.Path()) + ")"
	case parser.Input:
		return "(input " + dumpExpr(v.Prompt()) + ")"
	case parser.Copy:
		return fmt.Sprintf("(copy %s %s)", dumpVar(v.Destination()), dumpExpr(v.Source()))
	case parser.Write:
		return fmt.Sprintf("(write %s %s %s)", dumpExpr(v.Path()), dumpExpr(v.Data()), dumpExpr(v.Append()))
	}
	return fmt.Sprintf("(unknown %s)", hx(fmt.Sprintf("%T", e)))
}

func dumpBranch(b parser.IfBranch) string {
	return fmt.Sprintf("(br %s %s)", dumpExpr(b.Condition()), dumpStmts(b.Body()))
}

func dumpStmt(s parser.Statement) string {
	if s == nil {
		return "nil"
	}
	switch v := s.(type) {
	case parser.Program:
		return "(prog " + dumpStmts(v.Body()) + ")"
	case parser.VariableDefinition:
		return fmt.Sprintf("(vardef %s %s)", dumpVars(v.Variables()), dumpExprs(v.Values()))
	case parser.VariableDefinitionCallAssignment:
		return fmt.Sprintf("(vardefcall %s %s)", dumpVars(v.Variables()), dumpExpr(v.Call()))
	case parser.VariableAssignment:
		return fmt.Sprintf("(assign %s %s)", dumpVars(v.Variables()), dumpExprs(v.Values()))
	case parser.VariableAssignmentCallAssignment:
		return fmt.Sprintf("(assigncall %s %s)", dumpVars(v.Variables()), dumpExpr(v.Call()))
	case parser.SliceAssignment:
		return fmt.Sprintf("(sliceassign %s %s %s)", dumpVar(v.Variable), dumpExpr(v.Index()), dumpExpr(v.Value()))
	case parser.FunctionDefinition:
		return fmt.Sprintf("(func %s %s %s %s %s)", hx(v.Name()), b01(v.Public()), dumpVTs(v.ReturnTypes()), dumpVars(v.Params()), dumpStmts(v.Body()))
	case parser.Return:
		return "(return " + dumpExprs(v.Values()) + ")"
	case parser.If:
		parts := []string{}
		for _, b := range v.ElseIfBranches() {
			parts = append(parts, dumpBranch(b))
		}
		return fmt.Sprintf("(if %s (%s) %s)", dumpBranch(v.IfBranch()), strings.Join(parts, " "), dumpStmts(v.Else().Body()))
	case parser.For:
		return fmt.Sprintf("(for %s %s %s %s)", dumpStmt(v.Init()), dumpExpr(v.Condition()), dumpStmt(v.Increment()), dumpStmts(v.Body()))
	case parser.Break:
		return "(break)"
	case parser.Continue:
		return "(continue)"
	case parser.Print:
		return "(print " + dumpExprs(v.Expressions()) + ")"
	case parser.Panic:
		return "(panic " + dumpExpr(v.Expression()) + ")"
	}
	if e, ok := s.(parser.Expression); ok {
		return dumpExpr(e)
	}
	return fmt.Sprintf("(unknown %s)", hx(fmt.Sprintf("%T", s)))
}
