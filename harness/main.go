// tshdump: runs the real TypeShell packages from /repo's working tree in-process and prints
// canonical stage dumps (tokens, AST, scripts) for the correspondence check and the oracles.
package main

import (
	"bufio"
	"encoding/hex"
	"fmt"
	"os"
	"path/filepath"
	"runtime/debug"
	"strconv"
	"strings"
	"time"

	"github.com/monstermichl/typeshell/converters/bash"
	"github.com/monstermichl/typeshell/converters/batch"
	"github.com/monstermichl/typeshell/lexer"
	"github.com/monstermichl/typeshell/parser"
	"github.com/monstermichl/typeshell/transpiler"
)

func guard(f func() string) (out string) {
	defer func() {
		if r := recover(); r != nil {
			out = "PANIC " + hex.EncodeToString([]byte(fmt.Sprint(r)))
		}
	}()
	return f()
}

func errLine(err error) string {
	return "ERR " + hex.EncodeToString([]byte(err.Error()))
}

func lexMode() {
	in := bufio.NewReaderSize(os.Stdin, 1<<20)
	out := bufio.NewWriter(os.Stdout)
	defer out.Flush()
	for {
		line, err := in.ReadString('\n')
		line = strings.TrimRight(line, "\r\n")
		if line != "" || err == nil {
			src, herr := hex.DecodeString(line)
			if herr != nil {
				fmt.Fprintln(out, "BADREQ")
			} else {
				fmt.Fprintln(out, guard(func() string {
					ts, e := lexer.Tokenize(string(src))
					if e != nil {
						return errLine(e)
					}
					return "OK " + dumpTokens(ts)
				}))
			}
			out.Flush()
		}
		if err != nil {
			return
		}
	}
}

// pipe mode: one case per line:  <id> <stages> <main-rel-hex> <n> {<rel-hex> <content-hex>}*
// stages is a string over t (tokens of main), a (ast), s (bash script), w (batch script)
func pipeMode(work string) {
	in := bufio.NewReaderSize(os.Stdin, 1<<24)
	out := bufio.NewWriter(os.Stdout)
	defer out.Flush()
	n := 0
	// unbounded recursion must die quickly (fatal "stack overflow", attributed to the case by the driver)
	debug.SetMaxStack(32 << 20)
	// per-case watchdog: a case that does not finish in time is reported as DIVERGE and ends the worker
	var watchdog *time.Timer
	for {
		line, err := in.ReadString('\n')
		line = strings.TrimRight(line, "\r\n")
		if line != "" {
			f := strings.Split(line, " ")
			id, stages := f[0], f[1]
			mainRel, _ := hex.DecodeString(f[2])
			dir := filepath.Join(work, fmt.Sprintf("c%d", n))
			n++
			os.RemoveAll(dir)
			for i := 4; i+1 < len(f); i += 2 {
				rel, _ := hex.DecodeString(f[i])
				content, _ := hex.DecodeString(f[i+1])
				p := filepath.Join(dir, string(rel))
				os.MkdirAll(filepath.Dir(p), 0755)
				os.WriteFile(p, content, 0644)
			}
			os.MkdirAll(dir, 0755)
			mainPath := filepath.Join(dir, string(mainRel))
			fmt.Fprintln(out, "CASE "+id)
			out.Flush() // so that a fatal crash can be attributed
			if watchdog != nil {
				watchdog.Stop()
			}
			watchdog = time.AfterFunc(watchdogTime(), func() {
				os.Stdout.WriteString("WATCHDOG " + id + "\n")
				os.Exit(3)
			})
			if strings.Contains(stages, "t") {
				fmt.Fprintln(out, "TOK "+guard(func() string {
					src, e := os.ReadFile(mainPath)
					if e != nil {
						return errLine(e)
					}
					ts, e := lexer.Tokenize(string(src))
					if e != nil {
						return errLine(e)
					}
					return "OK " + dumpTokens(ts)
				}))
			}
			if strings.Contains(stages, "a") {
				fmt.Fprintln(out, "AST "+guard(func() string {
					p := parser.New()
					prog, e := p.Parse(mainPath)
					if e != nil {
						return errLine(e)
					}
					return "OK " + dumpStmt(prog)
				}))
			}
			if strings.Contains(stages, "s") {
				fmt.Fprintln(out, "BASH "+guard(func() string {
					t := transpiler.New()
					s, e := t.Transpile(mainPath, bash.New())
					if e != nil {
						return errLine(e)
					}
					return "OK " + hex.EncodeToString([]byte(s))
				}))
			}
			if strings.Contains(stages, "w") {
				fmt.Fprintln(out, "BATCH "+guard(func() string {
					t := transpiler.New()
					s, e := t.Transpile(mainPath, batch.New())
					if e != nil {
						return errLine(e)
					}
					return "OK " + hex.EncodeToString([]byte(s))
				}))
			}
			fmt.Fprintln(out, "END "+id)
			out.Flush()
			os.RemoveAll(dir)
		}
		if err != nil {
			return
		}
	}
}

// hist mode: transpilations interleaved on ONE transpiler object (fresh converter per call, as the
// library is meant to be used).  Lines:  C <id> <main-rel-hex> <n> {<rel-hex> <content-hex>}*   define a case
//                                         T <id> bash|batch                                        transpile it now
func histMode(work string) {
	in := bufio.NewReaderSize(os.Stdin, 1<<24)
	out := bufio.NewWriter(os.Stdout)
	defer out.Flush()
	t := transpiler.New()
	mains := map[string]string{}
	n := 0
	for {
		line, err := in.ReadString('\n')
		line = strings.TrimRight(line, "\r\n")
		if line != "" {
			f := strings.Split(line, " ")
			switch f[0] {
			case "C":
				mainRel, _ := hex.DecodeString(f[2])
				dir := filepath.Join(work, fmt.Sprintf("h%d", n))
				n++
				for i := 4; i+1 < len(f); i += 2 {
					rel, _ := hex.DecodeString(f[i])
					content, _ := hex.DecodeString(f[i+1])
					p := filepath.Join(dir, string(rel))
					os.MkdirAll(filepath.Dir(p), 0755)
					os.WriteFile(p, content, 0644)
				}
				mains[f[1]] = filepath.Join(dir, string(mainRel))
			case "T":
				fmt.Fprintln(out, "R "+guard(func() string {
					var conv transpiler.Converter = bash.New()
					if f[2] == "batch" {
						conv = batch.New()
					}
					s, e := t.Transpile(mains[f[1]], conv)
					if e != nil {
						return "ERR"
					}
					return "OK " + hex.EncodeToString([]byte(s))
				}))
				out.Flush()
			}
		}
		if err != nil {
			return
		}
	}
}

// gostrings mode: what Go's strings package returns.  Line: <Func> {s:<hex> | i:<int> | l:<hex>,<hex>,...}*
func encS(s string) string { return "s:" + hex.EncodeToString([]byte(s)) }
func encB(b bool) string {
	if b {
		return "b:1"
	}
	return "b:0"
}
func encL(l []string) string {
	if len(l) == 0 {
		return "l:-"
	}
	parts := make([]string, len(l))
	for i, e := range l {
		parts[i] = hex.EncodeToString([]byte(e))
	}
	return "l:" + strings.Join(parts, ",")
}

func goStringsMode() {
	in := bufio.NewReaderSize(os.Stdin, 1<<20)
	out := bufio.NewWriter(os.Stdout)
	defer out.Flush()
	for {
		line, err := in.ReadString('\n')
		line = strings.TrimRight(line, "\r\n")
		if line != "" {
			f := strings.Split(line, " ")
			S := func(i int) string { b, _ := hex.DecodeString(strings.TrimPrefix(f[i], "s:")); return string(b) }
			I := func(i int) int { n, _ := strconv.Atoi(strings.TrimPrefix(f[i], "i:")); return n }
			L := func(i int) []string {
				body := strings.TrimPrefix(f[i], "l:")
				if body == "-" {
					return []string{}
				}
				parts := strings.Split(body, ",")
				res := make([]string, len(parts))
				for k, p := range parts {
					b, _ := hex.DecodeString(p)
					res[k] = string(b)
				}
				return res
			}
			var r string
			switch f[0] {
			case "Index":
				r = fmt.Sprintf("i:%d", strings.Index(S(1), S(2)))
			case "Contains":
				r = encB(strings.Contains(S(1), S(2)))
			case "Join":
				r = encS(strings.Join(L(1), S(2)))
			case "HasPrefix":
				r = encB(strings.HasPrefix(S(1), S(2)))
			case "HasSuffix":
				r = encB(strings.HasSuffix(S(1), S(2)))
			case "Count":
				r = fmt.Sprintf("i:%d", strings.Count(S(1), S(2)))
			case "Split":
				r = encL(strings.Split(S(1), S(2)))
			case "Repeat":
				if I(2) < 0 {
					r = "panic"
				} else {
					r = encS(strings.Repeat(S(1), I(2)))
				}
			case "Replace":
				r = encS(strings.Replace(S(1), S(2), S(3), I(4)))
			case "ReplaceAll":
				r = encS(strings.ReplaceAll(S(1), S(2), S(3)))
			case "Cut":
				a, b, c := strings.Cut(S(1), S(2))
				r = encS(a) + " " + encS(b) + " " + encB(c)
			case "CutPrefix":
				a, c := strings.CutPrefix(S(1), S(2))
				r = encS(a) + " " + encB(c)
			case "CutSuffix":
				a, c := strings.CutSuffix(S(1), S(2))
				r = encS(a) + " " + encB(c)
			case "TrimPrefix":
				r = encS(strings.TrimPrefix(S(1), S(2)))
			case "TrimSuffix":
				r = encS(strings.TrimSuffix(S(1), S(2)))
			case "TrimLeft":
				r = encS(strings.TrimLeft(S(1), S(2)))
			case "TrimRight":
				r = encS(strings.TrimRight(S(1), S(2)))
			case "Trim":
				r = encS(strings.Trim(S(1), S(2)))
			case "TrimSpace":
				r = encS(strings.TrimSpace(S(1)))
			default:
				r = "unknown"
			}
			fmt.Fprintln(out, r)
		}
		if err != nil {
			return
		}
	}
}

func main() {
	if len(os.Args) < 2 {
		fmt.Fprintln(os.Stderr, "usage: tshdump lex | pipe <workdir>")
		os.Exit(2)
	}
	switch os.Args[1] {
	case "lex":
		lexMode()
	case "pipe":
		pipeMode(os.Args[2])
	case "hist":
		histMode(os.Args[2])
	case "gostrings":
		goStringsMode()
	default:
		os.Exit(2)
	}
}

// watchdogTime: wall-clock budget of one case (TSHDUMP_WATCHDOG seconds, default 8; the driver re-runs a case that ran into it alone
// with a larger budget before it calls the case divergent - a loaded machine must not look like a hang)
func watchdogTime() time.Duration {
	if v := os.Getenv("TSHDUMP_WATCHDOG"); v != "" {
		if n, err := strconv.Atoi(v); err == nil && n > 0 {
			return time.Duration(n) * time.Second
		}
	}
	return 8 * time.Second
}
